#!/venv/bin/python
"""tools/keep_mutant.py <Cxx> <name> <patch.diff> <demo.py> [--meta <agent meta.json>]
Confirm a seeded change in a scratch worktree of /repo HEAD (demo passes clean, fails with the change, the 86 baseline tests
still pass) and store it under /verif/seeded/<Cxx>-<name>/ (patch.diff, demo.py, meta.json)."""
import sys, os, json, subprocess, shutil, tempfile
V = os.path.dirname(os.path.dirname(os.path.abspath(__file__)))
pid, name, patch, demo = sys.argv[1:5]
meta_src = sys.argv[sys.argv.index('--meta') + 1] if '--meta' in sys.argv else None
wt = tempfile.mkdtemp(prefix='seedwt-', dir='/tmp')
os.rmdir(wt)
def sh(cmd, **kw):
    return subprocess.run(cmd, shell=True, capture_output=True, text=True, **kw)
sh('git -C /repo worktree add -q --detach %s HEAD' % wt)
res = {}
try:
    env = dict(os.environ, PYTHONPATH=wt)
    r1 = subprocess.run(['/venv/bin/python', demo], cwd=wt, env=env, capture_output=True, text=True, timeout=1800)
    res['demo_clean_exit'] = r1.returncode
    a = sh('git -C %s apply %s' % (wt, patch))
    res['patch_applies'] = a.returncode == 0
    if a.returncode == 0:
        r2 = subprocess.run(['/venv/bin/python', demo], cwd=wt, env=env, capture_output=True, text=True, timeout=1800)
        res['demo_mutant_exit'] = r2.returncode
        res['demo_mutant_tail'] = (r2.stdout + r2.stderr)[-300:]
        t = sh('%s/tools/checktests.sh %s' % (V, wt))
        res['tests'] = t.stdout.strip().splitlines()[0] if t.stdout.strip() else t.stderr[-200:]
    ok = res.get('demo_clean_exit') == 0 and res.get('patch_applies') and res.get('demo_mutant_exit', 0) != 0 and '86/86' in res.get('tests', '')
    res['confirmed'] = bool(ok)
    print(pid, name, json.dumps(res)[:400])
    if ok:
        d = os.path.join(V, 'seeded', '%s-%s' % (pid, name))
        os.makedirs(d, exist_ok=True)
        shutil.copy(patch, os.path.join(d, 'patch.diff'))
        shutil.copy(demo, os.path.join(d, 'demo.py'))
        meta = json.load(open(meta_src)) if meta_src and os.path.exists(meta_src) else {}
        meta.update({'property': pid, 'caught_by': [pid], 'confirmed_at_repo_commit': sh('git -C /repo log --format=%h -1').stdout.strip(),
                     'what_i_ran': {'scratch worktree of /repo HEAD': True, 'demo on clean tree exit': res['demo_clean_exit'],
                                    'demo with patch exit': res['demo_mutant_exit'], 'baseline tests with patch': res['tests']}})
        json.dump(meta, open(os.path.join(d, 'meta.json'), 'w'), indent=1)
finally:
    sh('git -C /repo worktree remove --force %s' % wt)
sys.exit(0 if res.get('confirmed') else 1)
