#!/venv/bin/python
"""Regenerate MANIFEST.json from harness/registry.py (single source of truth for what is claimed)."""
import os, sys, json
V = os.path.dirname(os.path.dirname(os.path.abspath(__file__)))
sys.path.insert(0, V)
from harness import registry
props = [json.loads(l) for l in open(os.path.join(V, 'properties.jsonl'))]
checks = []
for p in props:
    pid = p['id']
    e = registry.PROPS.get(pid)
    if not e:
        continue
    checks.append({
        'property_id': pid,
        'quick_cmd': './check %s --tier quick' % pid,
        'thorough_cmd': './check %s --tier thorough' % pid,
        'evidence_file': 'evidence/%s.json' % pid,
        'replay_cmd_template': './check %s --replay {path}' % pid,
        'engine': 'tlc',
        'level_claimed': {'category': 'model_checking', 'text': e['level_text'], 'design_ref': e.get('design_ref', 'DESIGN.md section 5, ' + pid)},
        'level_note': e['level_note'],
        'technique': e['technique'],
    })
na = [{'property_id': p['id'], 'reason': registry.NOT_APPLICABLE.get(p['id'], 'check not built yet in this session (work in progress; the specification modules exist or are planned in DESIGN.md section 5)')}
      for p in props if p['id'] not in registry.PROPS]
m = {
    'version': 1,
    'setup_cmd': './setup.sh',
    'hooks': registry.HOOKS,
    'engines': registry.ENGINES,
    'checks': checks,
    'notes': registry.NOTES,
    'not_applicable': na,
}
json.dump(m, open(os.path.join(V, 'MANIFEST.json'), 'w'), indent=1)
print('MANIFEST.json: %d checks, %d not_applicable' % (len(checks), len(na)))
