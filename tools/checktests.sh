#!/bin/sh
# tools/checktests.sh <tree>: run the 86 baseline tests on a tree; prints "baseline tests passing: N/86"
T="$1"
J=$(mktemp /tmp/junit-XXXXXX.xml)
( cd "$T" && PYTHONPATH="$T" /venv/bin/python -m pytest -q -p no:cacheprovider --timeout=900 --continue-on-collection-errors --junitxml="$J" tests >/dev/null 2>&1 )
/venv/bin/python - "$J" <<'PY'
import sys, json, xml.etree.ElementTree as ET
base = set(json.load(open('/root/.vp/BASELINE.json'))['stable_pass'])
ok = set()
for tc in ET.parse(sys.argv[1]).getroot().iter('testcase'):
    if not any(c.tag in ('failure', 'error', 'skipped') for c in tc):
        ok.add(tc.get('classname') + '::' + tc.get('name'))
print('baseline tests passing: %d/%d' % (len(base & ok), len(base)))
missing = sorted(base - ok)
if missing: print('failing:', missing[:10])
PY
rm -f "$J"
