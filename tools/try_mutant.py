#!/venv/bin/python
"""tools/try_mutant.py <patch.diff> <Cxx> [<Cyy> ...] [--tier=quick] [--inplace]
Run checks against a seeded change.  By default the change is applied to a SCRATCH WORKTREE of /repo's HEAD under /tmp (removed
afterwards) and the checks run with VERIF_REPO pointing at it and with evidence/replays redirected to a scratch directory, so
neither /repo nor the committed evidence is touched.  --inplace applies it to /repo itself (as the brief describes: git apply,
run, git checkout) and restores evidence/ afterwards."""
import sys, os, subprocess, shutil, tempfile, json
V = os.path.dirname(os.path.dirname(os.path.abspath(__file__)))
args = [a for a in sys.argv[1:] if not a.startswith('--')]
tier = 'quick'
for a in sys.argv[1:]:
    if a.startswith('--tier='): tier = a.split('=')[1]
inplace = '--inplace' in sys.argv
patch, pids = os.path.abspath(args[0]), args[1:]


def sh(*cmd):
    return subprocess.run(list(cmd), capture_output=True, text=True)


res = {}
if inplace:
    if sh('git', '-C', '/repo', 'status', '--porcelain').stdout.strip():
        print('REFUSING: /repo has uncommitted changes'); sys.exit(2)
    repo = '/repo'
else:
    repo = tempfile.mkdtemp(prefix='mutwt-', dir='/tmp'); os.rmdir(repo)
    sh('git', '-C', '/repo', 'worktree', 'add', '-q', '--detach', repo, 'HEAD')
scratch = tempfile.mkdtemp(prefix='mutev-', dir='/tmp')
try:
    r = sh('git', '-C', repo, 'apply', patch)
    if r.returncode:
        print('PATCH DOES NOT APPLY:', r.stderr[:400]); sys.exit(3)
    env = dict(os.environ, VERIF_REPO=repo, VERIF_EVID=os.path.join(scratch, 'evidence'), VERIF_REPLAYS=os.path.join(scratch, 'replays'))
    for pid in pids:
        p = subprocess.run([os.path.join(V, 'check'), pid, '--tier', tier], capture_output=True, text=True, cwd=V, env=env)
        lines = [l for l in p.stdout.splitlines() if l.startswith(('VIOLATION', 'KNOWN', 'MACHINERY', pid))]
        res[pid] = {'rc': p.returncode, 'lines': lines[:4] + lines[-1:]}
        print(pid, 'rc=%d' % p.returncode, 'CAUGHT' if p.returncode == 1 else ('missed' if p.returncode == 0 else 'MACHINERY'))
        for l in lines[:3] + lines[-1:]:
            print('   ', l[:300])
        if p.returncode == 2:
            print(p.stdout[-1500:], p.stderr[-1500:])
finally:
    if inplace:
        sh('git', '-C', '/repo', 'reset', '-q'); sh('git', '-C', '/repo', 'checkout', '--', '.')
    else:
        sh('git', '-C', '/repo', 'worktree', 'remove', '--force', repo)
    shutil.rmtree(scratch, ignore_errors=True)
print(json.dumps(res))
