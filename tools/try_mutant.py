#!/venv/bin/python
"""tools/try_mutant.py <patch.diff> <Cxx> [<Cyy> ...] [--tier quick]
Apply a seeded change to /repo, run the named checks, undo the change.  Evidence files and replays produced
under the mutant are discarded (evidence/ is restored), so committed evidence always comes from the real tree."""
import sys, os, subprocess, shutil, tempfile, json
V = os.path.dirname(os.path.dirname(os.path.abspath(__file__)))
args = [a for a in sys.argv[1:] if not a.startswith('--')]
tier = 'quick'
for a in sys.argv[1:]:
    if a.startswith('--tier='): tier = a.split('=')[1]
patch, pids = os.path.abspath(args[0]), args[1:]
st = subprocess.run(['git', '-C', '/repo', 'status', '--porcelain'], capture_output=True, text=True).stdout.strip()
if st:
    print('REFUSING: /repo has uncommitted changes:\n' + st); sys.exit(2)
r = subprocess.run(['git', '-C', '/repo', 'apply', '--3way', patch], capture_output=True, text=True)
if r.returncode:
    r = subprocess.run(['git', '-C', '/repo', 'apply', patch], capture_output=True, text=True)
if r.returncode:
    print('PATCH DOES NOT APPLY:', r.stderr[:500]); subprocess.run(['git', '-C', '/repo', 'reset', '-q']); subprocess.run(['git', '-C', '/repo', 'checkout', '--', '.']); sys.exit(3)
save = tempfile.mkdtemp(prefix='evsave-')
shutil.copytree(os.path.join(V, 'evidence'), os.path.join(save, 'evidence'))
res = {}
try:
    for pid in pids:
        p = subprocess.run([os.path.join(V, 'check'), pid, '--tier', tier], capture_output=True, text=True, cwd=V)
        lines = [l for l in p.stdout.splitlines() if l.startswith(('VIOLATION', 'KNOWN', 'MACHINERY', pid))]
        res[pid] = {'rc': p.returncode, 'lines': lines[:4] + lines[-1:]}
        print(pid, 'rc=%d' % p.returncode, 'CAUGHT' if p.returncode == 1 else ('missed' if p.returncode == 0 else 'MACHINERY'))
        for l in lines[:3] + lines[-1:]:
            print('   ', l[:300])
        if p.returncode == 2:
            print(p.stdout[-1500:], p.stderr[-1500:])
finally:
    subprocess.run(['git', '-C', '/repo', 'reset', '-q'])
    subprocess.run(['git', '-C', '/repo', 'checkout', '--', '.'])
    shutil.rmtree(os.path.join(V, 'evidence')); shutil.copytree(os.path.join(save, 'evidence'), os.path.join(V, 'evidence'))
    shutil.rmtree(save)
    for pid in pids:
        shutil.rmtree(os.path.join(V, 'replays', pid), ignore_errors=True)
print(json.dumps(res))
