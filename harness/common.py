"""Shared helpers: paths, wire encodings (DESIGN Appendix B), access to the real implementation.

Python never does arithmetic for the oracle.  It (1) asks TLC for cases, (2) executes the real
fxpmath on them and logs what it observed, (3) hands the observations to TLC, which judges them.
The only numeric work here is converting Python numbers to and from the wire format.
"""
import os, sys, json, math, fractions

VERIF = os.path.dirname(os.path.dirname(os.path.abspath(__file__)))
REPO = os.environ.get('VERIF_REPO', '/repo')
SPEC = os.path.join(VERIF, 'spec')
MC = os.path.join(SPEC, 'mc')
EVID = os.environ.get('VERIF_EVID', os.path.join(VERIF, 'evidence'))          # (redirected when checks run against a seeded change)
REPLAYS = os.environ.get('VERIF_REPLAYS', os.path.join(VERIF, 'replays'))
LB = 15
BASE = 1 << LB


def import_fxpmath():
    """Import fxpmath from the CURRENT working tree of /repo (never an installed copy)."""
    if REPO not in sys.path or sys.path[0] != REPO:
        sys.path.insert(0, REPO)
    import warnings
    warnings.simplefilter('ignore')
    import numpy as np
    np.seterr(all='ignore')
    import fxpmath
    here = os.path.realpath(os.path.dirname(fxpmath.__file__))
    assert here == os.path.realpath(os.path.join(REPO, 'fxpmath')), 'fxpmath imported from %s' % here
    return fxpmath


# ------------------------------------------------------------------ wire format
def wint(n):
    """Python int -> [neg, limb0, limb1, ...] (little endian base 2^15, no trailing zero limb)."""
    n = int(n)
    out = [1 if n < 0 else 0]
    n = abs(n)
    while n:
        out.append(n & (BASE - 1))
        n >>= LB
    return out


def unwint(w):
    n = 0
    for i, l in enumerate(w[1:]):
        n |= l << (LB * i)
    return -n if w[0] else n


def dyadic_of_fraction(fr):
    """exact Fraction with power-of-two denominator -> (m, e) with value m*2^e, m odd or zero."""
    fr = fractions.Fraction(fr)
    d = fr.denominator
    if d & (d - 1):
        raise ValueError('not a dyadic rational: %r' % (fr,))
    m = fr.numerator
    e = -(d.bit_length() - 1)
    if m == 0:
        return 0, 0
    while m % 2 == 0:
        m //= 2
        e += 1
    return m, e


def dyadic_of_number(x):
    """int / float / numpy scalar -> exact (m, e)."""
    import numpy as np
    if isinstance(x, (bool, np.bool_)):
        x = int(x)
    if isinstance(x, (int, np.integer)):
        return dyadic_of_fraction(fractions.Fraction(int(x)))
    if isinstance(x, (float, np.floating)):
        if not math.isfinite(float(x)):
            raise ValueError('non-finite')
        return dyadic_of_fraction(fractions.Fraction(float(x)))
    if isinstance(x, fractions.Fraction):
        return dyadic_of_fraction(x)
    raise ValueError('cannot encode %r' % type(x))


def wdy(x):
    """number -> wire dyadic {"m": wint, "e": int}"""
    m, e = dyadic_of_number(x)
    return {'m': wint(m), 'e': e}


def frac(m, e):
    return fractions.Fraction(m) * (fractions.Fraction(2) ** e)


def chars(s):
    return [ord(ch) for ch in s]


def fmt_dict(x):
    return {'s': bool(x.signed), 'w': int(x.n_word), 'f': int(x.n_frac)}


def codes_of(x):
    """integer codes of an Fxp (flattened, Python ints); raises if a stored element is not integral."""
    import numpy as np
    a = np.asarray(x.val)
    out = []
    for c in a.ravel().tolist():
        if isinstance(c, float):
            if not c.is_integer():
                raise ValueError('non-integral stored code %r' % c)
            c = int(c)
        out.append(int(c))
    return out


def flags_of(x):
    st = x.status
    return {'o': bool(st.get('overflow')), 'u': bool(st.get('underflow')), 'i': bool(st.get('inaccuracy'))}


def seed_from_env(default=20261001):
    try:
        return int(os.environ.get('VERIF_SEED', default))
    except ValueError:
        return default


def jdump(obj):
    return json.dumps(obj, separators=(',', ':'))
