"""Shared helpers: paths, wire encodings (DESIGN Appendix B), access to the real implementation.

Python never does arithmetic for the oracle.  It (1) asks TLC for cases, (2) executes the real
fxpmath on them and logs what it observed, (3) hands the observations to TLC, which judges them.
The only numeric work here is converting Python numbers to and from the wire format.
"""
import os, sys, json, math, fractions

VERIF = os.path.dirname(os.path.dirname(os.path.abspath(__file__)))
REPO = os.environ.get('VERIF_REPO', '/repo')
SPEC = os.path.join(VERIF, 'spec')
MC = os.path.join(SPEC, 'mc')
EVID = os.environ.get('VERIF_EVID', os.path.join(VERIF, 'evidence'))          # (redirected when checks run against a seeded change)
REPLAYS = os.environ.get('VERIF_REPLAYS', os.path.join(VERIF, 'replays'))
LB = 15
BASE = 1 << LB


def import_fxpmath():
    """Import fxpmath from the CURRENT working tree of /repo (never an installed copy)."""
    if REPO not in sys.path or sys.path[0] != REPO:
        sys.path.insert(0, REPO)
    import warnings
    warnings.simplefilter('ignore')
    import numpy as np
    np.seterr(all='ignore')
    import fxpmath
    here = os.path.realpath(os.path.dirname(fxpmath.__file__))
    assert here == os.path.realpath(os.path.join(REPO, 'fxpmath')), 'fxpmath imported from %s' % here
    _unrelated_calls(fxpmath)
    return fxpmath


_POLLUTED = set()


def _unrelated_calls(fx):
    """Once per process, BEFORE any measured call: a handful of unrelated public calls on throw-away objects that use templates,
    like=, non-default configurations, scaling and constants.  None of them may leave anything behind (class attributes, module-level
    caches, shared default arguments): every later case of this process is executed in their wake."""
    if os.getpid() in _POLLUTED:
        return
    _POLLUTED.add(os.getpid())
    try:
        Fxp, Config = fx.Fxp, fx.Config
        odd = dict(rounding='ceil', overflow='wrap', op_sizing='same', const_op_sizing='largest', shifting='trunc', op_input_size='best',
                   op_method='repr', dtype_notation='Q', n_word_max=32, max_error=0.25)
        c = Config(**odd)
        Config(template=c)
        t = Fxp(None, False, 7, 3, config=c)
        Fxp(0.3 + 0.7j, template=t)
        Fxp(0.25, template=Fxp(1 + 1j, True, 9, 3))
        Fxp(0.3, template=Fxp(None, True, 9, 11, scale=3, bias=-2, **odd))
        a = Fxp(5.3, like=t, **odd)
        b = Fxp(2.75, True, 8, 2, scale=2, bias=1)
        Fxp(2.75, True, 8, 2, scale=4)
        Fxp(2.75, True, 8, 2, bias=0.5)
        for f in (lambda: a + 1, lambda: 300 - a, lambda: a * 0.375, lambda: a & 3, lambda: ~a, lambda: a >> 1, lambda: a << 2, lambda: a / a, lambda: b + b,
                  lambda: a.get_dtype('fxp'), lambda: a.bin(), lambda: a.hex(), lambda: Fxp('0b0101', like=a), lambda: Fxp(7.500244140625, max_error=1e-3),
                  lambda: Fxp([0.1, 1000.3], n_word_max=8), lambda: fx.fxp_sum(Fxp([1, 2], True, 8, 2)), lambda: a.resize(True, 12, 5)):
            try:
                f()
            except Exception:
                pass
    except Exception:
        pass


# ------------------------------------------------------------------ wire format
def wint(n):
    """Python int -> [neg, limb0, limb1, ...] (little endian base 2^15, no trailing zero limb)."""
    n = int(n)
    out = [1 if n < 0 else 0]
    n = abs(n)
    while n:
        out.append(n & (BASE - 1))
        n >>= LB
    return out


def unwint(w):
    n = 0
    for i, l in enumerate(w[1:]):
        n |= l << (LB * i)
    return -n if w[0] else n


def dyadic_of_fraction(fr):
    """exact Fraction with power-of-two denominator -> (m, e) with value m*2^e, m odd or zero."""
    fr = fractions.Fraction(fr)
    d = fr.denominator
    if d & (d - 1):
        raise ValueError('not a dyadic rational: %r' % (fr,))
    m = fr.numerator
    e = -(d.bit_length() - 1)
    if m == 0:
        return 0, 0
    while m % 2 == 0:
        m //= 2
        e += 1
    return m, e


def dyadic_of_number(x):
    """int / float / numpy scalar -> exact (m, e)."""
    import numpy as np
    if isinstance(x, (bool, np.bool_)):
        x = int(x)
    if isinstance(x, (int, np.integer)):
        return dyadic_of_fraction(fractions.Fraction(int(x)))
    if isinstance(x, (float, np.floating)):
        if not math.isfinite(float(x)):
            raise ValueError('non-finite')
        return dyadic_of_fraction(fractions.Fraction(float(x)))
    if isinstance(x, fractions.Fraction):
        return dyadic_of_fraction(x)
    raise ValueError('cannot encode %r' % type(x))


def wdy(x):
    """number -> wire dyadic {"m": wint, "e": int}"""
    m, e = dyadic_of_number(x)
    return {'m': wint(m), 'e': e}


def frac(m, e):
    return fractions.Fraction(m) * (fractions.Fraction(2) ** e)


def chars(s):
    return [ord(ch) for ch in s]


def fmt_dict(x):
    return {'s': bool(x.signed), 'w': int(x.n_word), 'f': int(x.n_frac)}


def codes_of(x):
    """integer codes of an Fxp (flattened, Python ints); raises if a stored element is not integral."""
    import numpy as np
    a = np.asarray(x.val)
    out = []
    for c in a.ravel().tolist():
        if isinstance(c, float):
            if not c.is_integer():
                raise ValueError('non-integral stored code %r' % c)
            c = int(c)
        out.append(int(c))
    return out


def flags_of(x):
    st = x.status
    return {'o': bool(st.get('overflow')), 'u': bool(st.get('underflow')), 'i': bool(st.get('inaccuracy'))}


def seed_from_env(default=20261001):
    try:
        return int(os.environ.get('VERIF_SEED', default))
    except ValueError:
        return default


def jdump(obj):
    return json.dumps(obj, separators=(',', ':'))
