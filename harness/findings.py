"""known_findings.json: genuine defects of the pinned tree that are recorded rather than repaired.

An entry suppresses a verdict only if EVERY key of its `match` agrees with the observation row, so a different
violation of the same property is still reported.  Entries with status "fixed" suppress nothing.  The file is
never written at run time.
"""
import os, json, re
from . import common

PATH = os.path.join(common.VERIF, 'known_findings.json')


def load():
    if not os.path.exists(PATH):
        return []
    return json.load(open(PATH))


def _field(row, key):
    cur = row
    for part in key.split('.'):
        if isinstance(cur, dict) and part in cur:
            cur = cur[part]
        else:
            return None
    return cur


def _ok(cond, val):
    if isinstance(cond, dict):
        if 'ge' in cond and not (val is not None and val >= cond['ge']): return False
        if 'le' in cond and not (val is not None and val <= cond['le']): return False
        if 'in' in cond and val not in cond['in']: return False
        if 're' in cond and not (isinstance(val, str) and re.search(cond['re'], val)): return False
        return True
    if isinstance(cond, list):
        return val in cond
    return val == cond


def match(entries, pid, clause, row, idx):
    for e in entries:
        if e.get('status') != 'open' or e.get('property') != pid:
            continue
        m = e.get('match', {})
        if 'clause' in m and not re.match(m['clause'], clause or ''):
            continue
        if all(_ok(c, _field(row or {}, k)) for k, c in m.get('where', {}).items()):
            return e
    return None


def describe(row, idx):
    if not row:
        return ''
    keys = ['k', 'op', 'route', 'carrier', 's', 'w', 'f', 'r', 'o', 'err', 'act']
    d = ' '.join('%s=%s' % (k, row[k]) for k in keys if k in row)
    if isinstance(idx, int) and idx > 0 and isinstance(row.get('v'), list) and idx <= len(row['v']):
        v = row['v'][idx - 1]
        try:
            d += ' input=%s*2^%d' % (common.unwint(v['m']), v['e'])
            if isinstance(row.get('c'), list) and idx <= len(row['c']):
                d += ' stored_code=%s' % common.unwint(row['c'][idx - 1])
        except Exception:
            pass
    return d
