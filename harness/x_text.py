"""Executing string rendering / parsing (C11) and dtype strings (C12) on the real implementation."""
from . import common
from .common import wint, chars
from .x_arith import mk, fmt_of


def _flat_strs(np, r):
    """bin()/hex() results -> flat list of python strings (scalars give one string; 2-D gives list of arrays)"""
    if isinstance(r, str):
        return [r]
    out = []
    for item in r:
        if isinstance(item, str):
            out.append(item)
        else:
            out += [str(s) for s in np.asarray(item).ravel().tolist()]
    return out


def observe_render(fx, np, props, t, codes, kind, shape=None, base=None):
    s, w, f = t
    row = {'k': 'render', 'p': list(props), 's': bool(s), 'w': w, 'f': f, 'kind': kind, 'base': base or 0,
           'route': kind, 'carrier': 'scalar' if isinstance(codes, int) else ('array%dd' % (2 if shape else 1))}
    try:
        x = mk(fx, np, t, codes, shape)
        if kind == 'bin':
            r = x.bin()
        elif kind == 'binp':
            r = x.bin(frac_dot=True)
        elif kind == 'bin0b':
            r = x.bin(prefix='0b')
        elif kind == 'binp0b':
            r = x.bin(frac_dot=True, prefix='0b')
        elif kind == 'hex':
            r = x.hex()
        elif kind == 'base':
            r = x.base_repr(base)
        else:
            raise ValueError(kind)
        strs = _flat_strs(np, r)
        cl = [codes] if isinstance(codes, int) else list(codes)
        return dict(row, c=[wint(c) for c in cl], strs=[chars(z) for z in strs], v=[0] * len(cl))
    except Exception as ex:
        return dict(row, k='error', err=type(ex).__name__, msg=str(ex)[:200])


DERIVE = ['rshift-trunc', 'T', 'flatten', 'copy', 'deepcopy', 'getitem', 'neg', 'lshift', 'like', 'setval', 'setitem', 'invert']


def observe_render_derived(fx, np, props, t, codes, kind, how, shape=None):
    """history: render the parent, derive another object from it (or mutate it), render THAT: the strings must be
    the image of the codes the rendered object holds now"""
    s, w, f = t
    row = {'k': 'render', 'p': list(props), 'kind': kind, 'base': 0, 'route': kind + '/' + how, 'carrier': 'derived'}
    try:
        x = mk(fx, np, t, codes, shape)
        x.bin(); x.hex(); x.bin(frac_dot=True)
        if how == 'rshift-trunc':
            x.config.shifting = 'trunc'
            y = x >> 1
        elif how == 'T':
            y = x.T
        elif how == 'flatten':
            y = x.flatten()
        elif how == 'copy':
            y = x.copy(); y.set_val(x.val[::-1].copy(), raw=True)
        elif how == 'deepcopy':
            y = x.deepcopy(); y.set_val(x.val[::-1].copy(), raw=True)
        elif how == 'getitem':
            y = x[::-1]
        elif how == 'neg':
            y = -x
        elif how == 'lshift':
            y = x << 1
        elif how == 'like':
            y = fx.Fxp(x.val[::-1].copy(), like=x, raw=True)
        elif how == 'setval':
            x.set_val(x.val[::-1].copy(), raw=True); y = x
        elif how == 'setitem':
            x[0] = x[len(codes) - 1] if shape is None else x[1]; y = x
        elif how == 'invert':
            y = ~x
        else:
            raise ValueError(how)
        r = {'bin': lambda: y.bin(), 'binp': lambda: y.bin(frac_dot=True), 'bin0b': lambda: y.bin(prefix='0b'),
             'binp0b': lambda: y.bin(frac_dot=True, prefix='0b'), 'hex': lambda: y.hex()}[kind]()
        strs = _flat_strs(np, r)
        cl = common.codes_of(y)
        return dict(row, s=bool(y.signed), w=int(y.n_word), f=int(y.n_frac), c=[wint(c) for c in cl], strs=[chars(z) for z in strs], v=[0] * len(cl))
    except Exception as ex:
        return dict(row, k='error', s=bool(s), w=w, f=f, err=type(ex).__name__, msg=str(ex)[:200])


def observe_parse(fx, np, props, t, codes, kind, route, raw, shape=None, npfeed=False):
    """render with the real code, feed the strings back into an object of the same format by `route`"""
    s, w, f = t
    row = {'k': 'parse', 'p': list(props), 's': bool(s), 'w': w, 'f': f, 'kind': kind, 'route': route, 'raw': bool(raw),
           'carrier': 'scalar' if isinstance(codes, int) else ('array%dd' % (2 if shape else 1))}
    try:
        x = mk(fx, np, t, codes, shape)
        if kind == 'bin0b':
            r = x.bin(prefix='0b')
        elif kind == 'binp0b':
            r = x.bin(frac_dot=True, prefix='0b')
        elif kind == 'bin':
            r = x.bin()
        elif kind == 'binp':
            r = x.bin(frac_dot=True)
        elif kind == 'hex':
            r = x.hex()
        else:
            raise ValueError(kind)
        if npfeed:
            feed = np.array(r)                   # the rendered strings as a NumPy string array (0-d for a scalar)
            row['carrier'] += '/np-str'
        elif isinstance(r, str):
            feed = r
        else:
            feed = np.array(r).tolist()          # nested list of python strings (2-D: element-wise)
        Fxp = fx.Fxp
        if not isinstance(feed, str) and (len(strs_key := str(kind)) + w + f) % 2 == 0:
            # the same container was given to ANOTHER object before, in the other interpretation mode (it must still hold the strings)
            try:
                if kind in ('bin', 'binp'):
                    Fxp(None, bool(s), w, f).from_bin(feed, raw=not raw)
                else:
                    Fxp(feed, bool(s), w, f, raw=not raw)
            except Exception:
                pass
            row['route'] = route + '/container-reused'
        if route == 'ctor':
            y = Fxp(feed, bool(s), w, f, raw=raw)
        elif route == 'call':
            if raw:
                return None
            y = Fxp(None, bool(s), w, f)
            y(feed)
        elif route == 'set_val':
            y = Fxp(None, bool(s), w, f)
            y.set_val(feed, raw=raw)
        elif route == 'from_bin':
            y = Fxp(None, bool(s), w, f)
            y.from_bin(feed, raw=raw)
        elif route == 'fn_from_bin':
            y = fx.from_bin(feed, signed=bool(s), n_word=w, n_frac=f, raw=raw)
        else:
            raise ValueError(route)
        cl = [codes] if isinstance(codes, int) else list(codes)
        back = common.codes_of(y)
        return dict(row, c=[wint(c) for c in cl], back=[wint(c) for c in back], z=fmt_of(y), strs=[chars(z) for z in _flat_strs(np, r)][:4],
                    v=[0] * len(cl), zshape=list(np.shape(y.val)), xshape=list(np.shape(x.val)))
    except Exception as ex:
        return dict(row, k='error', err=type(ex).__name__, msg=str(ex)[:200])


# ------------------------------------------------------------------ dtype strings
def observe_dtype_render(fx, np, props, t, cplx, route):
    s, w, f = t
    row = {'k': 'dtype', 'p': list(props), 's': bool(s), 'w': w, 'f': f, 'cplx': bool(cplx), 'route': route, 'carrier': 'str'}
    try:
        Fxp = fx.Fxp
        val = (1 + 1j) if cplx else None
        if cplx and '#' in route:          # complex ARRAYS whose imaginary parts are all zero; results of complex arithmetic that come out real-valued
            route, kind = route.split('#')
            if kind == 'zero-imag':
                val = np.array([1 + 0j, 0j])
            elif kind == 'conjprod':
                a0 = Fxp(np.array([1 + 1j, 1 - 1j]), True, max(4, w // 2), 0)
                prod = a0 * np.conj(a0)
                if route == 'dtype-default':
                    st = prod.dtype
                    want = {'s': bool(prod.signed), 'w': int(prod.n_word), 'f': int(prod.n_frac)}
                    return dict(row, s=want['s'], w=want['w'], f=want['f'], notation='fxp', str=chars(st), route=row['route'])
                val = np.array([2 + 0j, 2 + 0j])
        notation = {'dtype-default': 'fxp', 'dtype-Q': 'Q', 'get_dtype(fxp)|fxp': 'fxp', 'get_dtype(Q)|fxp': 'Q',
                    'get_dtype(fxp)|Q': 'fxp', 'get_dtype(Q)|Q': 'Q', 'get_dtype()|Q': 'Q', 'get_dtype()|fxp': 'fxp'}['|'.join(route.split('|')[:2])]
        if route == 'dtype-default':
            st = Fxp(val, bool(s), w, f).dtype
        elif route == 'dtype-Q':
            st = Fxp(val, bool(s), w, f, dtype_notation='Q').dtype
        else:
            parts = route.split('|')
            call, conf = parts[0], parts[1]
            hist = parts[2] if len(parts) > 2 else ''
            arg = call[len('get_dtype('):-1]
            if hist == 'reconf':          # history: lived (and was asked) under the OTHER default, then reconfigured
                x = Fxp(val, bool(s), w, f, dtype_notation={'Q': 'fxp', 'fxp': 'Q'}[conf])
                x.get_dtype(); x.get_dtype(conf)
                x.config.dtype_notation = conf
            else:
                x = Fxp(val, bool(s), w, f, dtype_notation=conf)
            if hist.startswith('after('):  # history: an earlier query in (possibly) another notation
                x.get_dtype(hist[len('after('):-1])
            st = x.get_dtype(arg) if arg else x.get_dtype()
        return dict(row, notation=notation, str=chars(st))
    except Exception as ex:
        return dict(row, k='error', err=type(ex).__name__, msg=str(ex)[:200])


def observe_dtype_parse(fx, np, props, t, cplx, string, spelling, route):
    s, w, f = t
    row = {'k': 'dtypeparse', 'p': list(props), 's': bool(s), 'w': w, 'f': f, 'cplx': bool(cplx), 'route': route, 'spelling': spelling,
           'carrier': 'str', 'str': chars(string)}
    try:
        Fxp = fx.Fxp
        if route == 'ctor':
            y = Fxp(None, dtype=string)
        elif route == 'ctor-val':
            y = Fxp(0.5, dtype=string)
        elif route in ('ctor-like', 'ctor-template', 'ctor-template-kw'):
            # the string next to a real-valued reference object of another format (like=, the class-level template, template=):
            # the string decides the format, the complex suffix included
            ref = Fxp(1.5, not bool(s), 12, 3)
            if route == 'ctor-like':
                y = Fxp(None, like=ref, dtype=string)
            elif route == 'ctor-template-kw':
                y = Fxp(None, dtype=string, template=ref)
            else:
                Fxp.template = ref
                try:
                    y = Fxp(None, dtype=string)
                finally:
                    Fxp.template = None
        elif route == 'resize':
            y = Fxp(None, True, 7, 3)
            y.resize(dtype=string)
        elif route == 'resize-same':         # history: the object already has exactly these sizes (real-valued, holding a value)
            y = Fxp(0.0, bool(s), w, f)
            y.resize(dtype=string)
        elif route == 'roundtrip':           # constructing with dtype = x.dtype reproduces x's format
            x = Fxp((1 + 1j) if cplx else None, bool(s), w, f, dtype_notation='Q' if spelling.startswith('Q') else 'fxp')
            y = Fxp(None, dtype=x.dtype)
            row['str'] = chars(x.dtype)
        elif route == 'fxp_sum':
            x = Fxp([0, 0], True, 4, 0)
            y = fx.fxp_sum(x, dtype=string)
        elif route == 'get_sizes':
            sg, nw, nf = fx.utils.get_sizes_from_dtype(string)
            return dict(row, z={'s': bool(sg), 'w': int(nw), 'f': int(nf)}, zc=bool(cplx))
        else:
            raise ValueError(route)
        zc = bool(y.vdtype == complex) if route in ('ctor', 'resize', 'resize-same', 'roundtrip', 'ctor-like', 'ctor-template', 'ctor-template-kw') else bool(cplx)
        return dict(row, z=fmt_of(y), zc=zc, zstr=chars(y.dtype))
    except Exception as ex:
        return dict(row, k='error', err=type(ex).__name__, msg=str(ex)[:200])
