"""Executing two-operand arithmetic on the real implementation and logging observations (kinds "arith", "div").

Operands are always built from integer codes with raw=True, so the judge knows their exact values.
"""
from . import common
from .common import wint, wdy

OPS = {'add': '+', 'sub': '-', 'mul': '*'}


def mk(fx, np, t, codes, shape=None, dirty=False, **cfg):
    """Fxp of format t = (s, w, f) holding exactly the integer codes (array, or scalar if codes is an int).
    dirty: the object has a HISTORY - an earlier out-of-range, inexact write raised all its sticky flags."""
    s, w, f = t
    if dirty:
        x = fx.Fxp(None, bool(s), w, f, **cfg)
        x(2.0 ** (w - f + 2) + 2.0 ** (-f - 1))         # overflow + inaccuracy
        x(-(2.0 ** (w - f + 2)) - 2.0 ** (-f - 1))       # underflow
        if isinstance(codes, int):
            x.set_val(codes, raw=True)
        else:
            a = np.array([int(c) for c in codes], dtype=object if w >= 63 else (np.int64 if s else np.uint64))
            x.set_val(a.reshape(shape) if shape is not None else a, raw=True)
        return x
    if isinstance(codes, int):
        return fx.Fxp(codes, bool(s), w, f, raw=True, **cfg)
    dt = object if w >= 63 else (np.int64 if s else np.uint64)
    a = np.array([int(c) for c in codes], dtype=dt)
    if shape is not None:
        a = a.reshape(shape)
    return fx.Fxp(a, bool(s), w, f, raw=True, **cfg)


HIST = ['inplace', 'view', 'resign', 'elementwise', 'intfmt', 'fortran', 'transposed', 'intval', 'element', 'shifted']


def warm_up(fx, np, X):
    """typical uses of an object, so that anything the library may cache about it is cached (results are discarded)"""
    for f in (lambda: X.get_val(), lambda: X + X, lambda: X * X, lambda: X - X, lambda: X >> 2, lambda: X << 1, lambda: X < X, lambda: X == 0,
              lambda: X.astype(int), lambda: X.astype(float), lambda: X.bin(), lambda: X.hex(), lambda: np.sum(X), lambda: ~X, lambda: X.raw(), lambda: X.uraw(),
              lambda: X & 1, lambda: X | 1, lambda: X ^ 1, lambda: X.mean(), lambda: X.max(), lambda: X.item() if X.size == 1 else X[0]):
        try:
            f()
        except Exception:
            pass


def mk_hist(fx, np, t, codes, shape=None, mode='inplace', **cfg):
    """an Fxp of format t holding exactly `codes`, but with a HISTORY: it first held other codes (possibly under the other
    signedness), was used, and then received the intended codes by writes that do NOT rebind its value buffer:
      inplace     - set_val(..., index=slice) on the object itself
      view        - the same write made through a slice view of the object
      elementwise - x[i] = code one element at a time (raw codes through set_val(index=i))
      resign      - created with the opposite signedness, resized by sign only, used, then written in place
      fortran     - a 2-D operand stored in Fortran (column-major) order      transposed - the .T view of a C-ordered 2-D operand
                    (both hold the codes in the same LOGICAL order; only the memory layout differs)
      shifted     - the operand is the result of `y >> 1` in trunc mode (same format; y held the doubled codes)
      element     - (scalar operands) the operand is an ELEMENT taken from an array by an integer index: its value is a NumPy scalar
      intval      - (n_frac <= 0) built BY VALUE from Python integers: the value type of the object is int and reads return integer arrays
      reworded    - created with ANOTHER word length (same sign and fraction), used there, resized by n_word only, used, written in place
      likeword    - built like= a template of another word length that was used before (Fxp(None, like=tmpl, n_word=w)), then written
      intfmt      - created from integers in the INTEGER format of the same word (n_frac = 0), resized in place to n_frac, used, written in place"""
    s, w, f = t
    scalar = isinstance(codes, int)
    lo, hi = ((-(1 << (w - 1)), (1 << (w - 1)) - 1) if s else (0, (1 << w) - 1))
    clist = [codes] if scalar else [int(c) for c in codes]
    other = [hi - (c - lo) for c in clist]                       # mirrored codes: in range, generally different
    dt = object if w >= 63 else (np.int64 if s else np.uint64)

    def arr(cs):
        a = np.array(cs, dtype=dt)
        if scalar:
            return a.reshape(())
        return a.reshape(shape) if shape is not None else a
    if mode in ('fortran', 'transposed') and not scalar and shape is None and len(clist) >= 4 and len(clist) % 2 == 0:
        a2 = arr(clist).reshape((2, len(clist) // 2))
        if mode == 'fortran':
            X = fx.Fxp(np.asfortranarray(a2), bool(s), w, f, raw=True, **cfg)
        else:
            X = fx.Fxp(np.ascontiguousarray(a2.T), bool(s), w, f, raw=True, **cfg).T
        warm_up(fx, np, X)
        X.reset()
        return X
    if mode == 'shifted' and all(lo <= 2 * c <= hi for c in clist) and w < 63:
        cfg2 = dict(cfg); cfg2['shifting'] = 'trunc'
        Y0 = fx.Fxp(arr([2 * c for c in clist]), bool(s), w, f, raw=True, **cfg2)
        X = Y0 >> 1
        if common.codes_of(X) != clist or (int(X.n_word), int(X.n_frac)) != (w, f):
            raise AssertionError('trunc-mode shift did not give the intended codes')
        if 'shifting' in cfg:
            X.config.shifting = cfg['shifting']
        return X
    if mode == 'element' and scalar:
        A = fx.Fxp(np.array([other[0], clist[0], other[0]], dtype=dt), bool(s), w, f, raw=True, **cfg)
        X = A[1] if (clist[0] + w) % 2 else A[-2]
        if common.codes_of(X) != clist:
            raise AssertionError('indexing changed the code')
        return X
    if mode == 'empty':
        # created EMPTY (by sizes or by dtype string: the value type of such an object is float), then loaded with the codes by a raw store
        if (w + len(clist)) % 2:
            X = fx.Fxp(None, bool(s), w, f, **cfg)
        else:
            X = fx.Fxp(None, dtype='fxp-%s%d/%d' % ('s' if s else 'u', w, f), **cfg)
        X.set_val(arr(clist), raw=True)
        if common.codes_of(X) != clist:
            raise AssertionError('raw store into an empty object changed the codes')
        return X
    if mode == 'intval-element' and scalar and f <= 0 and w < 63:
        # an ELEMENT (integer index) of an array that was built BY VALUE from Python integers: the element's value is a NumPy integer scalar
        vals = [c << (-f) for c in (other[0], clist[0], other[0])]
        A = fx.Fxp(vals, bool(s), w, f, **cfg)
        X = A[1] if (clist[0] + w) % 2 else A[-2]
        if common.codes_of(X) != clist:
            raise AssertionError('indexing changed the code')
        return X
    if mode == 'intval' and f <= 0 and w < 63:
        vals = [c << (-f) for c in clist]
        X = fx.Fxp(vals[0] if scalar else (np.array(vals, dtype=np.int64).reshape(shape) if shape is not None else vals), bool(s), w, f, **cfg)
        if common.codes_of(X) != clist:
            raise AssertionError('by-value construction from integers changed the codes')
        X.reset()
        return X
    if mode == 'resign' and w >= 2 and w < 63:
        X = fx.Fxp(arr([0] * len(clist)), bool(not s), w, f, raw=True, **cfg)
        X.resize(signed=bool(s))
        X.set_val(arr(other), raw=True)
    elif mode == 'reworded' and 2 <= w < 60:
        w0 = w + 3 if (w + len(clist)) % 2 else max(w - 2, (2 if s else 1))       # (wider or narrower before)
        X = fx.Fxp(arr([0] * len(clist)), bool(s), w0, f, raw=True, **cfg)
        warm_up(fx, np, X)
        X.resize(n_word=w)
        X.set_val(arr(other), raw=True)
    elif mode == 'likeword' and 2 <= w < 60:
        T = fx.Fxp(arr([0] * len(clist)), bool(s), w + 3 if (w + len(clist)) % 2 else max(w - 2, (2 if s else 1)), f, raw=True, **cfg)
        warm_up(fx, np, T)
        X = fx.Fxp(None, like=T, n_word=w)
        X.set_val(arr(other), raw=True)
    elif mode == 'intfmt' and f != 0 and w < 63:
        X = fx.Fxp(0 if scalar else np.zeros(arr(clist).shape, dtype=np.int64), bool(s), w, 0, **cfg)        # integer VALUES: vdtype is int
        X.resize(n_frac=f)
        X.set_val(arr(other), raw=True)
    else:
        X = fx.Fxp(arr(other), bool(s), w, f, raw=True, **cfg)
    warm_up(fx, np, X)
    new = arr(clist)
    if scalar:
        X.set_val(new, raw=True, index=())
    elif mode == 'view':
        V = X[...] if shape is not None else X[0:len(clist)]
        V.set_val(new, raw=True, index=Ellipsis)
    elif mode == 'elementwise':
        flat = new.ravel()
        for i in range(flat.size):
            X.set_val(flat[i], raw=True, index=np.unravel_index(i, new.shape))
    else:
        X.set_val(new, raw=True, index=Ellipsis)
    X.reset()
    return X


def fmt_of(z):
    return {'s': bool(z.signed), 'w': int(z.n_word), 'f': int(z.n_frac)}


def modes_of(z):
    return {'r': z.config.rounding, 'o': z.config.overflow}


def apply(fx, np, op, X, Y, route, **kw):
    import fxpmath
    if route == 'operator':
        if op == 'add': return X + Y
        if op == 'sub': return X - Y
        if op == 'mul': return X * Y
        if op == 'truediv': return X / Y
        if op == 'floordiv': return X // Y
        if op == 'mod': return X % Y
    if route == 'iop':            # in-place operator spelling: Z = X; Z += Y (X itself must stay what it was)
        Z = X
        if op == 'add': Z += Y
        elif op == 'sub': Z -= Y
        elif op == 'mul': Z *= Y
        elif op == 'truediv': Z /= Y
        elif op == 'floordiv': Z //= Y
        elif op == 'mod': Z %= Y
        else: raise ValueError(op)
        return Z
    if route == 'function':
        fn = {'add': fxpmath.add, 'sub': fxpmath.sub, 'mul': fxpmath.mul, 'truediv': fxpmath.truediv,
              'floordiv': fxpmath.floordiv, 'mod': fxpmath.mod}[op]
        return fn(X, Y, **kw)
    if route == 'numpy':
        fn = {'add': np.add, 'sub': np.subtract, 'mul': np.multiply, 'truediv': np.true_divide,
              'floordiv': np.floor_divide, 'mod': np.mod}[op]
        return fn(X, Y, **kw)
    raise ValueError(route)


def observe_arith(fx, np, props, op, tx, ty, cxs, cys, route='operator', sizing='optimal', method='raw', xmodes=None,
                  ymodes=None, target=None, tfmt=None, tmodes=None, scalar=False, shape=None, extra=None, dirty=False, template=None):
    """one array (or scalar) operation.  Returns an observation row (or an error row)."""
    xm = xmodes or ('trunc', 'saturate')
    ym = ymodes or ('trunc', 'saturate')
    base = {'k': 'arith', 'p': list(props), 'op': op, 'x': dict(zip('swf', (bool(tx[0]), tx[1], tx[2]))),
            'y': dict(zip('swf', (bool(ty[0]), ty[1], ty[2]))), 'sizing': sizing, 'method': method, 'route': route,
            'xm': {'r': xm[0], 'o': xm[1]}, 'ym': {'r': ym[0], 'o': ym[1]}, 'target': target or 'none',
            'tf': dict(zip('swf', (bool(tfmt[0]), tfmt[1], tfmt[2]))) if tfmt else {'s': False, 'w': 0, 'f': 0},
            'tm': {'r': tmodes[0], 'o': tmodes[1]} if tmodes else {'r': 'trunc', 'o': 'saturate'},
            'agg': not scalar, 'carrier': 'scalar' if scalar else 'array', 'dirty': bool(dirty)}
    if extra:
        base.update(extra)
    try:
        if isinstance(dirty, str):          # operands with an in-place history (see mk_hist)
            X = mk_hist(fx, np, tx, cxs[0] if scalar else cxs, shape, mode=dirty, rounding=xm[0], overflow=xm[1])
            Y = mk_hist(fx, np, ty, cys[0] if scalar else cys, shape, mode=dirty, rounding=ym[0], overflow=ym[1])
            base['route'] = route + '/hist-' + dirty
        else:
            X = mk(fx, np, tx, cxs[0] if scalar else cxs, shape, dirty=dirty, rounding=xm[0], overflow=xm[1])
            Y = mk(fx, np, ty, cys[0] if scalar else cys, shape, dirty=dirty, rounding=ym[0], overflow=ym[1])
        base['opi'] = bool(X.status['inaccuracy'] or Y.status['inaccuracy'])
        kw = {}
        T = None
        if target:
            T = fx.Fxp(None, bool(tfmt[0]), tfmt[1], tfmt[2], rounding=tmodes[0], overflow=tmodes[1])
        if T is not None and target == 'out_like':
            # the template has a HISTORY (an accumulator reused as template): it overflowed, underflowed and was inexact before.
            # A result made out_like it is a new object: its flags tell what happened in THIS operation only
            T(2.0 ** (tfmt[1] - tfmt[2] + 2) + 2.0 ** (-tfmt[2] - 2))
            T(-(2.0 ** (tfmt[1] - tfmt[2] + 2)) - 2.0 ** (-tfmt[2] - 2))
        if route in ('operator', 'iop'):
            X.config.op_sizing = sizing
            X.config.op_method = method
            if target == 'out':
                X.config.op_out = T
            elif target == 'out_like':
                X.config.op_out_like = T
        elif route == 'numpy':
            if target == 'out':
                kw['out'] = T            # np.add(x, y, out=T)
            elif target or sizing != 'optimal':
                raise ValueError('numpy route takes only out=')
        elif route == 'function':
            kw = {'sizing': sizing, 'method': method}
            if target == 'out':
                kw['out'] = T
            elif target == 'out_like':
                kw['out_like'] = T
        # UNRELATED objects derived from the operands (like=, an element view), reconfigured: nothing of that may reach the operands
        try:
            o_ = fx.Fxp(0.0, like=X, op_sizing='same', rounding='ceil', overflow='wrap')
            o_.config.op_method = 'repr'
            if np.ndim(Y.val) >= 1 and np.size(Y.val):
                e_ = Y[0]
                e_.config.op_sizing = 'smallest'
                e_.config.overflow = 'wrap'
        except Exception:
            pass
        if template:          # a class-level template of another format / signedness / modes is active while the operation runs
            base['route'] = base['route'] + '/template'
            fx.Fxp.template = fx.Fxp(None, bool(template[0]), template[1], template[2], rounding='ceil', overflow='wrap')
        try:
            Z = apply(fx, np, op, X, Y, route, **kw)
        finally:
            fx.Fxp.template = None
        if not isinstance(Z, fx.Fxp):
            raise TypeError('result is %s, not Fxp' % type(Z).__name__)
        cz = common.codes_of(Z)
        fl = common.flags_of(Z)
        # operands must be untouched
        if common.codes_of(X) != ([cxs[0]] if scalar else list(cxs)) or common.codes_of(Y) != ([cys[0]] if scalar else list(cys)):
            raise AssertionError('operand modified by the operation')
        row = dict(base, z=fmt_of(Z), zm=modes_of(Z), cx=[wint(c) for c in (cxs[:1] if scalar else cxs)],
                   cy=[wint(c) for c in (cys[:1] if scalar else cys)], cz=[wint(c) for c in cz],
                   fo=[fl['o']], fu=[fl['u']], fi=[fl['i']], same_obj=bool(T is not None and Z is T),
                   zshape=list(np.shape(Z.val)), v=[0] * len(cz))
        return row
    except Exception as ex:
        return dict(base, k='error', err=type(ex).__name__, msg=str(ex)[:200], cx=[wint(c) for c in cxs[:3]], cy=[wint(c) for c in cys[:3]])


def observe_const(fx, np, props, op, tx, cxs, const, side, ois, csizing, xmodes, method='raw', extra=None, history=False, ctype=None):
    """x op const / const op x with a Python-number constant (exact dyadic given as Fraction)."""
    import fractions
    xm = xmodes
    cval = float(const) if const.denominator != 1 else int(const)
    if ctype:           # the constant is carried by a NumPy scalar of a (narrow) type; only on the right-hand side / in-place spelling
        tp = getattr(np, ctype)
        if side == 'left' or (np.dtype(tp).kind in 'iu' and (const.denominator != 1 or not (np.iinfo(tp).min <= int(const) <= np.iinfo(tp).max))):
            return None
        if np.dtype(tp).kind == 'f' and fractions.Fraction(float(tp(float(const)))) != const:
            return None
        cval = tp(int(const)) if np.dtype(tp).kind in 'iu' else tp(float(const))
    base = {'k': 'arithc', 'p': list(props), 'op': op, 'x': dict(zip('swf', (bool(tx[0]), tx[1], tx[2]))), 'side': side,
            'ois': ois, 'sizing': csizing, 'method': method, 'xm': {'r': xm[0], 'o': xm[1]}, 'c': wdy(const),
            'route': 'operator', 'carrier': ('np.' if ctype else '') + type(cval).__name__, 'agg': True}
    if extra:
        base.update(extra)
    try:
        if history:
            # the object was used with the SAME constant under other modes and another input-size policy before, then reconfigured
            other = {'trunc': 'ceil', 'fix': 'around', 'floor': 'trunc', 'ceil': 'floor', 'around': 'fix'}
            X = mk(fx, np, tx, cxs, None, rounding=other[xm[0]], overflow='wrap' if xm[1] == 'saturate' else 'saturate')
            X.config.op_input_size = ois
            X.config.const_op_sizing = csizing
            _ = (X + cval), (cval - X), (X * cval)
            X.config.rounding, X.config.overflow = xm
            base['route'] = 'operator/history'
        else:
            X = mk(fx, np, tx, cxs, None, rounding=xm[0], overflow=xm[1])
        # ANOTHER object of the same format, under the other modes, met constants before (nothing about it may stick to the format)
        try:
            B = mk(fx, np, tx, cxs[:1], None, rounding='ceil' if xm[0] != 'ceil' else 'floor', overflow='wrap' if xm[1] == 'saturate' else 'saturate')
            _ = (B + 1), (B + cval), (cval - B), (B * cval)
        except Exception:
            pass
        X.config.op_input_size = ois
        X.config.const_op_sizing = csizing
        X.config.op_method = method
        if side == 'inplace':
            Z = X
            if op == 'add': Z += cval
            elif op == 'sub': Z -= cval
            else: Z *= cval
            if common.codes_of(X) != list(cxs):
                raise AssertionError('operand modified by the in-place operator')
        elif side == 'right':
            Z = {'add': lambda: X + cval, 'sub': lambda: X - cval, 'mul': lambda: X * cval}[op]()
        else:
            Z = {'add': lambda: cval + X, 'sub': lambda: cval - X, 'mul': lambda: cval * X}[op]()
        cz = common.codes_of(Z)
        fl = common.flags_of(Z)
        return dict(base, z=fmt_of(Z), zm=modes_of(Z), cx=[wint(c) for c in cxs], cz=[wint(c) for c in cz],
                    fo=[fl['o']], fu=[fl['u']], fi=[fl['i']], v=[0] * len(cz))
    except Exception as ex:
        return dict(base, k='error', err=type(ex).__name__, msg=str(ex)[:200], cx=[wint(c) for c in cxs[:3]])


def observe_unary(fx, np, props, op, tx, cxs, xmodes, ois='same'):
    base = {'k': 'unary', 'p': list(props), 'op': op, 'x': dict(zip('swf', (bool(tx[0]), tx[1], tx[2]))),
            'xm': {'r': xmodes[0], 'o': xmodes[1]}, 'route': 'operator', 'carrier': 'array', 'agg': True}
    try:
        X = mk(fx, np, tx, cxs, None, rounding=xmodes[0], overflow=xmodes[1])
        X.config.op_input_size = ois
        X.config.const_op_sizing = ['same', 'optimal', 'smallest'][len(cxs) % 3]
        base['route'] = 'operator/' + ois
        Z = {'neg': lambda: -X, 'pos': lambda: +X, 'abs': lambda: abs(X)}[op]()
        cz = common.codes_of(Z)
        fl = common.flags_of(Z)
        return dict(base, z=fmt_of(Z), cx=[wint(c) for c in cxs], cz=[wint(c) for c in cz], fo=[fl['o']], fu=[fl['u']],
                    fi=[fl['i']], v=[0] * len(cz))
    except Exception as ex:
        return dict(base, k='error', err=type(ex).__name__, msg=str(ex)[:200], cx=[wint(c) for c in cxs[:3]])


def observe_div(fx, np, props, tx, ty, cxs, cys, method='raw', rnd='trunc', route='operator', scalar=False, hist=None):
    """x/y, x//y, x%y on the same operands (divisor codes non-zero)"""
    base = {'k': 'div', 'p': list(props), 'x': dict(zip('swf', (bool(tx[0]), tx[1], tx[2]))),
            'y': dict(zip('swf', (bool(ty[0]), ty[1], ty[2]))), 'method': method, 'r': rnd, 'route': route,
            'agg': not scalar, 'carrier': 'scalar' if scalar else 'array'}
    try:
        if hist:
            X = mk_hist(fx, np, tx, cxs[0] if scalar else cxs, None, mode=hist, rounding=rnd)
            Y = mk_hist(fx, np, ty, cys[0] if scalar else cys, None, mode=hist, rounding=rnd)
            base['route'] = route + '/hist-' + hist
        else:
            X = mk(fx, np, tx, cxs[0] if scalar else cxs, None, rounding=rnd)
            Y = mk(fx, np, ty, cys[0] if scalar else cys, None, rounding=rnd)
        X.config.op_method = method
        res = {}
        for name, op in (('t', 'truediv'), ('q', 'floordiv'), ('m', 'mod')):
            Z = apply(fx, np, op, X, Y, route, **({'method': method} if route == 'function' else {}))
            fl = common.flags_of(Z)
            res['c' + name] = [wint(c) for c in common.codes_of(Z)]
            res['t' + name] = fmt_of(Z)
            res['f' + name] = [fl['o'], fl['u'], fl['i']]
        # the same quotient and remainder written into an existing object through out= (NumPy ufunc call / module function):
        # a format with room for both (small world only: the out word stays within the stated 53 bits)
        res.update(hasout=False, oq=[], om=[], ot={'s': True, 'w': 1, 'f': 0}, oflags=[False] * 6)
        if max(tx[1], ty[1]) <= 6 and not hist and route in ('numpy', 'function') and -4 <= min(tx[2], ty[2]) and max(tx[2], ty[2]) <= 10:
            import fxpmath
            fo_ = max(tx[2], ty[2], 0) + 3
            shp = np.shape(np.asarray(X.val))
            O1 = fx.Fxp(np.zeros(shp) if shp else None, True, 48, fo_)
            O2 = fx.Fxp(np.zeros(shp) if shp else None, True, 48, fo_)
            if route == 'numpy':
                np.floor_divide(X, Y, out=O1); np.mod(X, Y, out=O2)
            else:
                fxpmath.floordiv(X, Y, out=O1, method=method); fxpmath.mod(X, Y, out=O2, method=method)
            f1, f2 = common.flags_of(O1), common.flags_of(O2)
            res.update(hasout=True, oq=[wint(c) for c in common.codes_of(O1)], om=[wint(c) for c in common.codes_of(O2)], ot=fmt_of(O1),
                       oflags=[f1['o'], f1['u'], f1['i'], f2['o'], f2['u'], f2['i']])
        n = len(res['ct'])
        return dict(base, cx=[wint(c) for c in (cxs[:1] if scalar else cxs)], cy=[wint(c) for c in (cys[:1] if scalar else cys)],
                    v=[0] * n, **res)
    except Exception as ex:
        return dict(base, k='error', err=type(ex).__name__, msg=str(ex)[:200], cx=[wint(c) for c in cxs[:3]], cy=[wint(c) for c in cys[:3]])


def observe_carith(fx, np, props, op, tx, ty, cxr, cxi, cyr, cyi, route='operator'):
    """EXTENSION (extra conformance): + - * of complex operands built from exact component codes."""
    base = {'k': 'carith', 'p': list(props), 'op': op, 'x': dict(zip('swf', (bool(tx[0]), tx[1], tx[2]))),
            'y': dict(zip('swf', (bool(ty[0]), ty[1], ty[2]))), 'route': route + '/complex', 'carrier': 'array', 'agg': True}
    try:
        X = fx.Fxp(np.array(cxr) + 1j * np.array(cxi), bool(tx[0]), tx[1], tx[2], raw=True)
        Y = fx.Fxp(np.array(cyr) + 1j * np.array(cyi), bool(ty[0]), ty[1], ty[2], raw=True)
        Z = apply(fx, np, op, X, Y, route)
        zv = np.asarray(Z.val).ravel()
        for v in zv:
            if float(v.real) != int(v.real) or float(v.imag) != int(v.imag):
                raise ValueError('non-integral complex code')
        fl = common.flags_of(Z)
        return dict(base, z=fmt_of(Z), cxr=[wint(c) for c in cxr], cxi=[wint(c) for c in cxi], cyr=[wint(c) for c in cyr], cyi=[wint(c) for c in cyi],
                    czr=[wint(int(v.real)) for v in zv], czi=[wint(int(v.imag)) for v in zv], fo=[fl['o']], fu=[fl['u']], fi=[fl['i']], v=[0] * len(cxr))
    except Exception as ex:
        return dict(base, k='error', p=['X-complex'], err=type(ex).__name__, msg=str(ex)[:200])
