"""Running TLC and reading what it says."""
import os, re, json, shutil, subprocess, tempfile, time
from . import common

TLC_JAR_CP = '/opt/veriftools/tla/tla2tools.jar:/opt/veriftools/tla/CommunityModules-deps.jar'
WORK = os.path.join(common.VERIF, '.work')


class TlcResult:
    def __init__(self):
        self.rc = None
        self.out = ''
        self.wall = 0.0
        self.generated = 0
        self.distinct = 0
        self.depth = 0
        self.ok = False            # "Model checking completed. No error has been found."
        self.violated = None       # name of violated invariant / property, if any
        self.error = None          # TLC error text (parse error, evaluation error ...)
        self.printed = []          # decoded PrintT payloads (JSON strings -> objects, tuples -> lists)
        self.coverage = {}         # action/operator name -> count (when -coverage is on)
        self.cmd = ''

    def summary(self):
        return {'cmd': self.cmd, 'rc': self.rc, 'generated': self.generated, 'distinct': self.distinct,
                'depth': self.depth, 'ok': self.ok, 'violated': self.violated, 'wall_s': round(self.wall, 2)}


_TUPLE = re.compile(r'^<<(.*)>>$')


def _parse_tuple(line):
    """<<"VERDICT", 12, 3, "C01", "code">>  ->  ["VERDICT", 12, 3, "C01", "code"]  (flat tuples only)"""
    m = _TUPLE.match(line.strip())
    if not m:
        return None
    try:
        return json.loads('[' + m.group(1).replace('TRUE', 'true').replace('FALSE', 'false') + ']')
    except Exception:
        return None


def run(module, cfg, workers=16, env=None, timeout=3600, simulate=None, depth=None, coverage=False,
        cwd=None, seed=None, heap='8g', keep_out=True, deadlock=None, dfs=False, sample_target=None):
    """Run TLC on spec/mc/<module>.tla with <cfg>.  Returns TlcResult."""
    os.makedirs(WORK, exist_ok=True)
    cwd = cwd or common.MC
    meta = tempfile.mkdtemp(prefix='tlc-', dir=WORK)
    jopts = '-DTLA-Library=%s:%s' % (common.SPEC, common.MC)
    if dfs:
        jopts += ' -Dtlc2.tool.queue.IStateQueue=StateDeque'
    cmd = ['java', '-XX:+UseParallelGC', '-Xss128m', '-Xmx' + heap, '-DTLA-Library=%s:%s' % (common.SPEC, common.MC)]
    if dfs:
        cmd.append('-Dtlc2.tool.queue.IStateQueue=StateDeque')
    cmd += ['-cp', TLC_JAR_CP, 'tlc2.TLC', '-workers', str(workers), '-metadir', meta, '-noGenerateSpecTE']
    if coverage:
        cmd += ['-coverage', '1']
    if simulate:
        cmd += ['-simulate', simulate]
    if depth:
        cmd += ['-depth', str(depth)]
    if seed is not None:
        cmd += ['-seed', str(seed)]
    if deadlock is False:
        cmd += ['-deadlock']
    cmd += ['-config', cfg, module]
    e = dict(os.environ)
    e.pop('JAVA_TOOL_OPTIONS', None)
    if env:
        e.update(env)
    r = TlcResult()
    r.cmd = ' '.join(cmd[cmd.index('tlc2.TLC'):])
    t0 = time.time()
    try:
        p = subprocess.run(cmd, cwd=cwd, env=e, stdout=subprocess.PIPE, stderr=subprocess.STDOUT, timeout=timeout)
        r.rc = p.returncode
        out = p.stdout.decode('utf-8', 'replace')
    except subprocess.TimeoutExpired as ex:
        r.rc = -9
        out = (ex.stdout or b'').decode('utf-8', 'replace') + '\nTIMEOUT'
        r.error = 'timeout after %ss' % timeout
    r.wall = time.time() - t0
    shutil.rmtree(meta, ignore_errors=True)
    _parse(r, out, sample_target, seed or 0)
    if keep_out or r.error or r.violated or not r.ok:
        r.out = out if len(out) < 2_000_000 else out[:1_000_000] + '\n...\n' + out[-200_000:]
    return r


def _parse(r, out, sample_target=None, salt=0):
    import zlib
    lines = out.splitlines()
    mod = 1
    r.printed_total = sum(1 for l in lines if l[:1] == '"' and l.endswith('"'))
    if sample_target and r.printed_total > sample_target:
        mod = -(-r.printed_total // sample_target)        # keep a deterministic 1/mod sample of the printed JSON rows (bounded memory)
    r.sample_mod = mod
    for line in lines:
        if not line:
            continue
        c = line[0]
        if c == '"' and line.endswith('"'):
            if mod > 1 and (zlib.crc32(line.encode()) + salt) % mod:
                continue
            try:
                s = json.loads(line)
                try:
                    r.printed.append(json.loads(s))
                except Exception:
                    r.printed.append(s)
            except Exception:
                pass
            continue
        if c == '<' and line.startswith('<<'):
            t = _parse_tuple(line)
            if t is not None:
                r.printed.append(t)
            continue
        m = re.match(r'^(\d+) states generated, (\d+) distinct states found', line)
        if m:
            r.generated, r.distinct = int(m.group(1)), int(m.group(2))
            continue
        m = re.match(r'^The depth of the complete state graph search is (\d+)', line)
        if m:
            r.depth = int(m.group(1))
            continue
        if 'No error has been found' in line:
            r.ok = True
            continue
        m = re.match(r'^Error: Invariant (\S+) is violated', line)
        if m:
            r.violated = m.group(1)
            continue
        m = re.match(r'^Error: Action property (\S+) is violated', line) or re.match(r'^Error: Temporal properties were violated', line)
        if m:
            r.violated = m.group(1) if m.groups() else 'temporal'
            continue
        if line.startswith('Error:') and r.error is None and r.violated is None:
            r.error = line
            continue
        m = re.match(r'^<(\w+) line \d+, col \d+ to line \d+, col \d+ of module (\w+)>: (\d+):(\d+)', line)
        if m:
            r.coverage[m.group(1)] = r.coverage.get(m.group(1), 0) + int(m.group(4))
    if r.error is None and not r.ok and r.violated is None and 'Finished in' not in out:
        r.error = 'TLC did not finish'


def error_context(r, n=40):
    lines = r.out.splitlines()
    for i, l in enumerate(lines):
        if l.startswith('Error:') or 'Parse Error' in l:
            return '\n'.join(lines[i:i + n])
    return '\n'.join(lines[-n:])
