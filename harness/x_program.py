"""Seeded random PROGRAMS of public operations on a pool of real Fxp objects (C02, direction B): construct, set, indexed set, resize,
like, arithmetic with every sizing policy, constants, shifts, bitwise, indexing, unary, reductions, conversions.  After every
operation the returned object (and, periodically, the whole pool) is logged as it REPORTS itself; Judge (kind "wf") evaluates
well-formedness on those reports.  Operations that raise are simply skipped here (what must not raise is judged elsewhere)."""
import random, fractions
from . import common
from .common import wint, wdy, chars

F = fractions.Fraction


def report(np, x, how):
    w, f = int(x.n_word), int(x.n_frac)
    cplx = bool(x.vdtype == complex or np.iscomplexobj(x.val))
    if cplx:
        vals = np.asarray(x.val).ravel().tolist()
        codes = [int(v.real) for v in vals] + [int(v.imag) for v in vals]
    else:
        codes = common.codes_of(x)
    lim = (1 <= w <= 52 and -60 <= f <= 60 and not cplx and not x.scaled)
    row = {'fmt': {'s': bool(x.signed), 'w': w, 'f': f}, 'codes': [wint(c) for c in codes[:40]], 'ni': int(x.n_int), 'dt': chars(x.dtype),
           'cplx': cplx, 'lim': bool(lim), 'how': how, 'nt': 'Q' if (x.config.dtype_notation == 'Q' and w - f >= 0) else ('fxp' if x.config.dtype_notation != 'Q' else 'skip'),
           'up': wdy(float(x.upper)) if lim else {'m': [0], 'e': 0}, 'lo': wdy(float(x.lower)) if lim else {'m': [0], 'e': 0},
           'pr': wdy(float(x.precision)) if lim else {'m': [0], 'e': 0}}
    return row


def run_program(fx, np, seed, steps, wmax=52):
    rng = random.Random(seed)
    Fxp = fx.Fxp
    pool = []
    objs = []

    def fmt():
        s = rng.random() < 0.5
        w = rng.choice([1, 2, 3, 8, 12, 16, 24, 31, 32, 33, min(48, wmax), wmax, rng.randint(1, wmax)])
        f = rng.choice([0, w, w // 2, -2, w + 3, rng.randint(-8, w + 8)])
        return s, w, f

    def value(s, w, f):
        lo, hi = ((-(1 << (w - 1)), (1 << (w - 1)) - 1) if s else (0, (1 << w) - 1))
        k4 = rng.choice([4 * lo, 4 * hi, 4 * hi + 6, 4 * lo - 5, 2, 0, 4 * rng.randint(lo, hi), rng.randint(4 * lo - 40, 4 * hi + 40)])
        v = float(F(k4, 4) / F(2) ** f)
        return v if rng.random() < 0.8 else rng.choice([1e300, -1e300, 2.0 ** 63, -2.0 ** 64, float(2 ** 70)])

    def new():
        s, w, f = fmt()
        n = rng.choice([0, 0, 1, 3, 4])
        kw = dict(rounding=rng.choice(['trunc', 'fix', 'floor', 'ceil', 'around']), overflow=rng.choice(['saturate', 'wrap']),
                  op_sizing=rng.choice(['optimal', 'same', 'largest', 'smallest']), shifting=rng.choice(['expand', 'trunc', 'keep']),
                  op_method=rng.choice(['raw', 'repr']), op_input_size=rng.choice(['same', 'best']), dtype_notation=rng.choice(['fxp', 'fxp', 'Q']),
                  const_op_sizing=rng.choice(['same', 'optimal', 'largest', 'smallest']))
        if n == 0:
            return Fxp(value(s, w, f), s, w, f, **kw)
        if n == 4:
            return Fxp(np.array([value(s, w, f) for _ in range(4)]).reshape(2, 2), s, w, f, **kw)
        return Fxp([value(s, w, f) for _ in range(n)], s, w, f, **kw)

    for _ in range(3):
        try:
            pool.append(new())
            objs.append(report(np, pool[-1], 'ctor'))
        except Exception:
            pass
    for step in range(steps):
        if not pool:
            pool.append(Fxp(0.5, True, 8, 4))
        x = rng.choice(pool)
        y = rng.choice(pool)
        op = rng.choice(['new', 'set', 'setitem', 'resize', 'resize-dtype', 'like', 'likem', 'from', 'add', 'sub', 'mul', 'div', 'floordiv', 'mod',
                         'const', 'neg', 'abs', 'lshift', 'rshift', 'invert', 'and', 'or', 'xor', 'getitem', 'sum', 'cumsum', 'prod', 'max', 'min',
                         'dot', 'transpose', 'clip', 'sort', 'deepcopy', 'equal', 'npadd', 'npmul', 'fadd', 'out', 'complex',
                         'resize-norestore', 'resize-narrow-norestore', 'resize-nint', 'resize-sign', 'set-raw', 'set-index', 'iop', 'like-kw', 'template',
                         'T', 'flatten', 'copy', 'fxp_like', 'from-bin', 'clip-wide', 'npsub', 'fsub', 'rconst', 'slice', 'setslice', 'conj',
                         'recfg', 'rejected'])
        z = None
        # sometimes a class-level template is ACTIVE during the call (it only supplies defaults to constructors without sizes:
        # whatever the call returns must still be well formed - an element of x keeps x's format, for instance)
        templ_on = rng.random() < 0.15 and op not in ('template',)
        if templ_on:
            try:
                Fxp.template = Fxp(None, rng.random() < 0.5, rng.choice([4, 8, 12]), rng.choice([0, 2, 4]))
            except Exception:
                templ_on = False
        try:
            if op == 'rejected':
                # calls that are rejected with an error and leave the object as it was (x stays in the pool and is reported)
                k = int(np.size(x.val))
                for bad in (lambda: x.__setitem__(k + 3, 0), lambda: x.set_val({'a': 1}), lambda: x('0b' + '1' * (int(x.n_word) + 3)),
                            lambda: x('no number'), lambda: x.set_val(0, index=k + 3)):
                    try:
                        bad()
                    except Exception:
                        pass
                if rng.random() < 0.5:
                    s, w, f = fmt()
                    x.resize(n_word=max(1, int(x.n_word) + rng.choice([-1, 1, 3])))
                z = x
            elif op == 'new':
                z = new()
            elif op == 'set':
                x(value(x.signed, x.n_word, x.n_frac) if x.size == 1 else [value(x.signed, x.n_word, x.n_frac) for _ in range(x.size)] if x.ndim == 1 else
                  np.array([value(x.signed, x.n_word, x.n_frac) for _ in range(x.size)]).reshape(x.shape))
                z = x
            elif op == 'setitem' and x.ndim >= 1 and x.size:
                x[rng.randrange(x.shape[0])] = value(x.signed, x.n_word, x.n_frac)
                z = x
            elif op == 'resize':
                s, w, f = fmt()
                x.resize(s, w, f)
                z = x
            elif op == 'resize-dtype':
                s, w, f = fmt()
                x.resize(dtype='fxp-%s%d/%d' % ('s' if s else 'u', w, f))
                z = x
            elif op == 'like':
                z = Fxp(value(y.signed, y.n_word, y.n_frac), like=y)
            elif op == 'likem':
                z = x.like(y)
            elif op == 'from':
                s, w, f = fmt()
                z = Fxp(x, s, w, f)
            elif op in ('add', 'sub', 'mul', 'div', 'floordiv', 'mod'):
                z = {'add': lambda: x + y, 'sub': lambda: x - y, 'mul': lambda: x * y, 'div': lambda: x / y, 'floordiv': lambda: x // y, 'mod': lambda: x % y}[op]()
            elif op == 'const':
                c = rng.choice([1, -1, 0.5, 3, -2.25, 7.75])
                z = rng.choice([lambda: x + c, lambda: c - x, lambda: x * c, lambda: c * x])()
            elif op == 'neg':
                z = -x
            elif op == 'abs':
                z = abs(x)
            elif op == 'lshift':
                z = x << rng.randint(0, 5)
            elif op == 'rshift':
                z = x >> rng.randint(0, 5)
            elif op == 'invert':
                z = ~x
            elif op in ('and', 'or', 'xor'):
                m = rng.getrandbits(max(1, x.n_word))
                z = {'and': lambda: x & m, 'or': lambda: x | m, 'xor': lambda: x ^ m}[op]()
            elif op == 'getitem' and x.ndim >= 1 and x.size:
                z = x[rng.randrange(x.shape[0])]
            elif op in ('sum', 'cumsum', 'prod', 'max', 'min') and x.ndim >= 1:
                z = getattr(np, op)(x) if rng.random() < 0.5 else getattr(x, op)()
            elif op == 'dot' and x.ndim == 1 and y.ndim == 1 and x.size == y.size:
                z = np.dot(x, y)
            elif op == 'transpose' and x.ndim == 2:
                z = np.transpose(x)
            elif op == 'clip' and x.ndim >= 1:
                z = np.clip(x, float(x.lower) / 2, float(x.upper) / 2)
            elif op == 'sort' and x.ndim >= 1:
                z = np.sort(x)
            elif op == 'deepcopy':
                z = x.deepcopy()
            elif op == 'equal' and x.shape == y.shape:
                x.equal(y)
                z = x
            elif op == 'npadd':
                z = np.add(x, y)
            elif op == 'npmul':
                z = np.multiply(x, y)
            elif op == 'fadd':
                z = fx.add(x, y, sizing=rng.choice(['optimal', 'same', 'largest', 'smallest']), method=rng.choice(['raw', 'repr']))
            elif op == 'out':
                t = rng.choice(pool)
                if t.shape == np.broadcast_shapes(x.shape, y.shape) and (t.signed or not (x.signed or y.signed)):
                    z = fx.mul(x, y, out=t)
            elif op == 'resize-norestore':
                s, w, f = fmt()
                x.resize(s, w, f, restore_val=False)
                z = x
            elif op == 'resize-narrow-norestore' and x.n_word > 2:
                x.resize(n_word=rng.randint(1 + int(x.signed), x.n_word - 1), restore_val=False)
                z = x
            elif op == 'resize-nint':
                s, w, f = fmt()
                if w - f - int(s) >= 0:
                    rng.choice([lambda: x.resize(s, n_int=w - f - int(s), n_frac=f), lambda: x.resize(s, n_word=w, n_int=w - f - int(s)),
                                lambda: x.resize(signed=s, n_frac=f, n_int=w - f - int(s))])()
                    z = x
            elif op == 'resize-sign':
                x.resize(signed=not x.signed)
                z = x
            elif op == 'set-raw':
                lo, hi = ((-(1 << (x.n_word - 1)), (1 << (x.n_word - 1)) - 1) if x.signed else (0, (1 << x.n_word) - 1))
                c = [rng.choice([lo, hi, lo - 1, hi + 1, hi + (1 << x.n_word), 0, rng.randint(lo, hi)]) for _ in range(max(1, x.size))]
                x.set_val(c[0] if x.ndim == 0 else np.array(c, dtype=object).reshape(x.shape), raw=True)
                z = x
            elif op == 'set-index' and x.ndim >= 1 and x.size:
                x.set_val(value(x.signed, x.n_word, x.n_frac), index=rng.randrange(x.shape[0]))
                z = x
            elif op == 'iop':
                z = x
                k = rng.randrange(5)
                if k == 0: z += y
                elif k == 1: z -= y
                elif k == 2: z *= y
                elif k == 3: z >>= rng.randint(0, 3)
                else: z <<= rng.randint(0, 3)
            elif op == 'like-kw':
                z = Fxp(value(y.signed, y.n_word, y.n_frac), like=y, signed=not y.signed)
            elif op == 'template':
                Fxp.template = y
                try:
                    z = Fxp(value(y.signed, y.n_word, y.n_frac))
                finally:
                    Fxp.template = None
            elif op == 'T' and x.ndim == 2:
                z = x.T
            elif op == 'flatten' and x.ndim >= 1:
                z = x.flatten()
            elif op == 'copy':
                z = x.copy()
            elif op == 'fxp_like':
                z = fx.fxp_like(x, value(x.signed, x.n_word, x.n_frac))
            elif op == 'from-bin' and x.ndim == 0:
                z = Fxp(None, like=x).from_bin(x.bin())
            elif op == 'best-sizes' and x.ndim <= 1:
                v = x.get_val()
                x.set_best_sizes(v)
                x.resize(x.signed, x.n_word, x.n_frac)
                z = x
            elif op == 'clip-wide' and x.ndim >= 1:
                z = np.clip(x, -1000.5, 1000.25) if rng.random() < 0.5 else x.clip(-0.5, 0.75)
            elif op == 'npsub':
                z = np.subtract(x, y)
            elif op == 'fsub':
                z = fx.sub(x, y, out_like=rng.choice(pool))
            elif op == 'rconst':
                c = rng.choice([np.int8(3), np.float32(1.5), 2 ** 20, -7, 0.125])
                z = rng.choice([lambda: c + x, lambda: c - x, lambda: c * x])()
            elif op == 'slice' and x.ndim >= 1 and x.size >= 2:
                z = x[::-1] if rng.random() < 0.5 else x[1:]
            elif op == 'setslice' and x.ndim == 1 and x.size >= 2:
                x[0:2] = [value(x.signed, x.n_word, x.n_frac) for _ in range(2)]
                z = x
            elif op == 'conj':
                z = x.conj()
            elif op == 'recfg':
                x.config.overflow = rng.choice(['saturate', 'wrap'])
                x.config.rounding = rng.choice(['trunc', 'fix', 'floor', 'ceil', 'around'])
                x(value(x.signed, x.n_word, x.n_frac) if x.ndim == 0 else np.full(x.shape, value(x.signed, x.n_word, x.n_frac)))
                z = x
            elif op == 'complex':
                s, w, f = fmt()
                z = Fxp(complex(value(s, w, f), value(s, w, f)), s, w, f)
        except Exception:
            z = None
            Fxp.template = None
            # a call that RAISED may have left the object it was called on half-updated (sizes set, dtype string not yet): what such an
            # object reports afterwards is not something C02 speaks about (it quantifies over objects RETURNED by public calls)
            pool[:] = [o for o in pool if o is not x]
        if templ_on:
            Fxp.template = None
        if isinstance(z, Fxp) and z.val is not None and z.n_word is not None:
            try:
                if 1 <= z.n_word <= wmax or (z.n_word == 0 and not z.signed):       # C02 quantifies over core-domain formats
                    objs.append(report(np, z, op))
                    if z.n_word <= wmax and np.size(z.val) <= 16 and len(pool) < 12 and z.vdtype != complex:
                        pool.append(z)
                    elif rng.random() < 0.3 and pool:
                        pool.pop(rng.randrange(len(pool)))
            except Exception as ex:
                objs.append({'fmt': {'s': False, 'w': 0, 'f': 0}, 'codes': [[0, 1]], 'ni': 0, 'dt': chars('unreportable'), 'cplx': False, 'lim': False,
                             'how': op + '.report-failed:' + type(ex).__name__, 'nt': 'fxp', 'up': {'m': [0], 'e': 0}, 'lo': {'m': [0], 'e': 0}, 'pr': {'m': [0], 'e': 0}})
        if step % 10 == 9:
            for o in pool:
                try:
                    objs.append(report(np, o, 'pool-after-' + op))
                except Exception:
                    pass
    return {'k': 'wf', 'p': ['C02'], 'objs': objs, 'route': 'program', 'carrier': 'objects', 'seed': seed, 'v': [0] * len(objs)}
