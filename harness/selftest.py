"""./check --selftest [--mutants]: tests of the machinery itself (not a property check).

 (i)   negative specifications: seeded-wrong variants of the algorithm transcriptions / of the heap model must be REJECTED by TLC
       (an invariant that never fails is not evidence);
 (ii)  binding: a corrupted observation must be named by the judge, a truncated trace must be a machinery failure (never a silent pass);
 (iii) with --mutants: every seeded source change under seeded/ must be caught by the check of the property it breaks, and the
       unchanged tree must pass (slow).
"""
import os, re, sys, json, shutil, tempfile, subprocess
from . import common, core, tlc

NEG = [
    # (module file to mutate, textual replacement, model, cfg, invariant expected to fail, description)
    ('FxpAlgo.tla', ('IN IF tie /\\ up % 2 = 1 THEN up - 1 ELSE up', 'IN up'), 'MC_Store.tla', 'MC_Store_C01_quick.cfg', 'I_AlgoIsMath',
     'around implemented as round-half-up'),
    ('FxpAlgo.tla', ('NpFloor(m, e) == IF e >= 0 THEN m * Pow2(e) ELSE m \\div Den(e)', 'NpFloor(m, e) == IF e >= 0 THEN m * Pow2(e) ELSE IF m >= 0 THEN m \\div Den(e) ELSE -((-m) \\div Den(e))'), 'MC_Store.tla',
     'MC_Store_C01_quick.cfg', 'I_AlgoIsMath', 'floor implemented by truncation'),
    ('FxpAlgo.tla', ('over == k > ValMax(t)', 'over == k >= ValMax(t)'), 'MC_Store.tla', 'MC_Store_C01_quick.cfg', 'I_AlgoIsMath',
     '>= for > in the overflow test'),
    ('FxpAlgo.tla', ('IN IF t.s THEN (IF y < Pow2(t.w - 1) THEN y ELSE MOr(y, -m)) ELSE y', 'IN IF t.s THEN (IF y <= Pow2(t.w - 1) THEN y ELSE MOr(y, -m)) ELSE y'),
     'MC_Store.tla', 'MC_Store_C03_quick.cfg', 'I_WrapUnique', 'sign-extension threshold off by one'),
    ('FxpMath.tla', ('ELSE IF ZIsOdd(fl) THEN ZAdd(fl, Z1) ELSE fl', 'ELSE ZAdd(fl, Z1)'), 'MC_Store.tla', 'MC_Store_C05_quick.cfg', 'I_Contracts',
     'property-level nearest rounds ties up (oracle guard)'),
    ('FxpOps.tla', ('ni == MaxI(NInt(x), NInt(y)) + 1', 'ni == MaxI(NInt(x), NInt(y))'), 'MC_Arith.tla', 'MC_Arith_C07_quick.cfg', 'I_ExactNoFlag',
     'add growth rule without the extra integer bit'),
    ('FxpAlgo.tla', ('StoreRawDy(Times2(cx * cy, tz.f - tx.f - ty.f), tz, rnd, ovf)', 'StoreRawDy(Times2((cx * cy) \\div 2, tz.f - tx.f - ty.f + 1), tz, rnd, ovf)'),
     'MC_Arith.tla', 'MC_Arith_C08_quick.cfg', 'I_SingleRounding', 'product pre-truncated before narrowing (double rounding)'),
    ('FxpAlgo.tla', ('q == IF a.e = 0 THEN FloorDivI(a.m, cy) ELSE FloorDivI(a.m, cy * Pow2(-a.e))', 'q == IF a.e = 0 THEN FloorDivI(a.m, cy) + 1 ELSE FloorDivI(a.m, cy * Pow2(-a.e)) + 1'),
     'MC_Arith.tla', 'MC_Arith_C09_quick.cfg', 'I_DivOK', 'quotient one LSB too high'),
    ('FxpBest.tla', ('IF mx = 0 /\\ mn = 0 THEN n ELSE IntLoop(vmax, vmin, n + 1, limit)', 'IF mx = 0 /\\ mn = 0 THEN n + 1 ELSE IntLoop(vmax, vmin, n + 1, limit)'),
     'MC_Best.tla', 'MC_Best_C06_quick.cfg', 'I_AlgoIsMinimal', 'integer-bit loop one too many'),
    ('FxpParse.tla', ('x == IF Len(s) < w THEN (IF signed THEN Repeat(s[1], w - Len(s)) ELSE Repeat(CH0, w - Len(s))) \\o s ELSE s', 'x == IF Len(s) < w THEN Repeat(CH0, w - Len(s)) \\o s ELSE s'),
     None, None, None, None),   # (equivalent on full-width strings: kept as documentation of a mutation the round trip cannot see)
    ('FxpText.tla', ('QString(t) == (IF t.s THEN <<81>> ELSE <<85, 81>>) \\o IntChars(t.w - t.f)', 'QString(t) == (IF t.s THEN <<81>> ELSE <<85, 81>>) \\o IntChars(t.w - t.f - (IF t.s THEN 1 ELSE 0))'),
     'MC_Text.tla', 'MC_Text_C12_quick.cfg', 'I_DtypeRoundTrip', 'Q notation without the sign bit in m'),
    ('FxpAlgo.tla', ('xm == cx % Pow2(t.w)  ym == cy % Pow2(t.w)', 'xm == cx % Pow2(t.w)  ym == cy'), 'MC_Bits.tla', 'MC_Bits_C13_quick.cfg', 'I_MaskOK',
     'bitwise operand not reduced modulo 2^n_word'),
    ('FxpAlgo.tla', ('ex == IF mp # NONE_ /\\ n > mp THEN n - mp ELSE 0', 'ex == IF mp # NONE_ /\\ n > mp + 1 THEN n - mp - 1 ELSE 0'), 'MC_Bits.tla', 'MC_Bits_C14_quick.cfg',
     'I_ExpandLossless', 'min_pow2 off by one'),
    ('MC_Reduce.tla', ('SumFmt == [s |-> t.s, w |-> N!CeilLog2(n) + t.w, f |-> t.f]', 'SumFmt == [s |-> t.s, w |-> N!CeilLog2(n) + t.w - 1, f |-> t.f]'), 'MC_Reduce.tla',
     'MC_Reduce_C15_quick.cfg', 'I_SumFits', 'sum growth by floor(log2 n)'),
    ('FxpSystem.tla', ('IN Put(Forget(S, a.y), a.y, [fmt |-> ot.fmt, codes |-> CodesOf(qs), cfg |-> ot.cfg, st |-> OrSt(ot.st, FoldQ(qs))])',
                       'IN DoLikeShallow(S, a)'), None, None, None, None),
]


def _neg_specs(report):
    ok = True
    tmp = tempfile.mkdtemp(prefix='neg-', dir=tlc.WORK if os.path.isdir(tlc.WORK) else None)
    try:
        for fn, (old, new), model, cfg, inv, desc in NEG:
            if model is None:
                continue
            d = os.path.join(tmp, 'spec')
            if os.path.exists(d):
                shutil.rmtree(d)
            shutil.copytree(common.SPEC, d)
            path = os.path.join(d, fn) if os.path.exists(os.path.join(d, fn)) else os.path.join(d, 'mc', fn)
            s = open(path).read()
            if old not in s:
                report.append('NEG %-55s SPEC TEXT NOT FOUND (update harness/selftest.py)' % desc)
                ok = False
                continue
            open(path, 'w').write(s.replace(old, new))
            cmd = ['java', '-Xss128m', '-Xmx6g', '-DTLA-Library=%s:%s' % (d, os.path.join(d, 'mc')), '-cp', tlc.TLC_JAR_CP, 'tlc2.TLC', '-workers', '16',
                   '-metadir', os.path.join(tmp, 'meta'), '-noGenerateSpecTE', '-config', cfg, model]
            p = subprocess.run(cmd, cwd=os.path.join(d, 'mc'), stdout=subprocess.PIPE, stderr=subprocess.STDOUT, timeout=1800)
            out = p.stdout.decode('utf-8', 'replace')
            m = re.search(r'Error: Invariant (\S+) is violated', out)
            got = m.group(1) if m else None
            good = got is not None
            report.append('NEG %-55s %s (TLC: %s)' % (desc, 'rejected' if good else 'NOT REJECTED', got or 'no violation'))
            ok = ok and good
            shutil.rmtree(os.path.join(tmp, 'meta'), ignore_errors=True)
        r = tlc.run('MC_System.tla', 'MC_System_C20_neg.cfg')
        report.append('NEG %-55s %s (TLC: %s)' % ('like() as a shallow copy in the heap model', 'rejected' if r.violated else 'NOT REJECTED', r.violated))
        ok = ok and bool(r.violated)
        r = tlc.run('MC_Reduce.tla', 'MC_Reduce_C15_neg.cfg')
        report.append('NEG %-55s %s (TLC: %s)' % ('cumprod sized for the last product only (before D27)', 'rejected' if r.violated else 'NOT REJECTED', r.violated))
        ok = ok and bool(r.violated)
    finally:
        shutil.rmtree(tmp, ignore_errors=True)
    return ok


def _binding(report):
    """corrupt one recorded field -> named verdict; truncate a line -> machinery failure"""
    from . import x_store
    import fractions
    F = fractions.Fraction
    fx = common.import_fxpmath()
    import numpy as np
    rows = []
    for i, (t, vals) in enumerate([((True, 8, 2), [F(5, 4), F(7, 8), F(100)]), ((False, 64, 0), [F(2 ** 64 - 1), F(2 ** 70)]), ((True, 52, 45), [F(967145078)])]):
        r = x_store.observe(fx, np, t, ('around', 'saturate'), vals, 'pyfloat' if t[1] == 8 else 'pyint', 'ctor', ['C01', 'C04'], False)
        r['id'] = i + 1
        rows.append(r)
    ok = True
    chk = core.Check('SELF', 'quick', 0)
    v = chk.judge([dict(r) for r in rows])
    report.append('BIND clean observations accepted: %s' % ('yes' if not v else 'NO %r' % v[:3]))
    ok = ok and not v
    bad = json.loads(json.dumps(rows))
    bad[0]['c'][1] = common.wint(common.unwint(bad[0]['c'][1]) + 1)          # a wrong code
    bad[1]['fo'][0] = not bad[1]['fo'][0]                                      # a wrong flag
    v = chk.judge(bad)
    names = sorted((x[1], x[3], x[4]) for x in v)
    want = [(1, 'C01', 'code'), (2, 'C04', 'flag.overflow')]
    good = all(w in names for w in want)
    report.append('BIND corrupted code and flag are named: %s %r' % ('yes' if good else 'NO', names))
    ok = ok and good
    trunc = json.loads(json.dumps(rows))
    del trunc[2]['c']
    try:
        chk.judge(trunc)
        report.append('BIND truncated row: NOT detected')
        ok = False
    except core.Machinery as ex:
        report.append('BIND truncated row is a machinery failure: yes')
    shutil.rmtree(os.path.join(common.REPLAYS, 'machinery-failed-batch.ndjson'), ignore_errors=True)
    try:
        os.remove(os.path.join(common.REPLAYS, 'machinery-failed-batch.ndjson'))
    except OSError:
        pass
    return ok


def _mutants(report):
    ok = True
    root = os.path.join(common.VERIF, 'seeded')
    for name in sorted(os.listdir(root)):
        meta_p = os.path.join(root, name, 'meta.json')
        if not os.path.exists(meta_p):
            continue
        meta = json.load(open(meta_p))
        p = subprocess.run([os.path.join(common.VERIF, 'tools', 'try_mutant.py'), os.path.join(root, name, 'patch.diff')] + meta['caught_by'],
                           stdout=subprocess.PIPE, stderr=subprocess.STDOUT, cwd=common.VERIF)
        out = p.stdout.decode()
        caught = ' rc=1 ' in out
        report.append('MUT %-28s %s' % (name, 'caught by ' + ','.join(meta['caught_by']) if caught else 'MISSED'))
        ok = ok and caught
    return ok


def main():
    os.makedirs(tlc.WORK, exist_ok=True)
    report = []
    ok = _neg_specs(report)
    ok = _binding(report) and ok
    if '--mutants' in sys.argv:
        ok = _mutants(report) and ok
    print('\n'.join(report))
    print('SELFTEST %s' % ('passed' if ok else 'FAILED'))
    return 0 if ok else 2
