"""Check pipeline: TLC model check (+ case rows) -> execute on the real code -> TLC judges -> evidence."""
import os, sys, json, time, hashlib, tempfile, shutil, concurrent.futures as cf
from . import common, tlc

NPROC = int(os.environ.get('VERIF_NPROC', os.cpu_count() or 4))


class Machinery(Exception):
    """The machinery itself failed (TLC crash, unparsable output, unconsumed rows): exit 2, never a VIOLATION."""


class Check:
    def __init__(self, pid, tier, seed):
        self.pid, self.tier, self.seed = pid, tier, seed
        self.t0 = time.time()
        self.states = 0
        self.transitions = 0
        self.traces = 0              # rows/behaviours/events of the real implementation judged by TLC
        self.evaluations = 0         # individual cases (elements of rows)
        self.nontrivial = 0
        self.rule = ''
        self.samples = []
        self.subruns = []
        self.assumptions = []
        self.extra = {}
        self.violations = []         # dicts: prop, clause, row (the observation row), index
        self.known_hits = {}
        self.skipped = {}
        self.exhaustive = False

    # ---------------------------------------------------------------- model checking
    def model_check(self, module, cfg, label=None, must_print=False, **kw):
        """Exhaustive TLC run of spec/mc/<module> with <cfg>; any violated invariant means the MODEL
        (algorithm transcription vs property statement) is inconsistent: machinery error, not a code defect."""
        r = tlc.run(module, cfg, **kw)
        self.subruns.append(dict(r.summary(), label=label or cfg, kind='model-check'))
        if r.error or r.violated or not r.ok:
            sys.stderr.write(tlc.error_context(r) + '\n')
            raise Machinery('model check %s/%s failed: %s' % (module, cfg, r.violated or r.error))
        self.states += r.distinct
        self.transitions += max(r.generated, 1)
        rows = [p for p in r.printed if isinstance(p, dict)]
        if must_print and not rows:
            raise Machinery('model %s/%s emitted no case rows' % (module, cfg))
        return rows, r

    # ---------------------------------------------------------------- judging
    def judge(self, rows, label='judge', nproc=None, timeout=3600):
        """rows: observation dicts with unique int 'id'.  Rows whose every integer is a single limb (the small
        worlds) go to JudgeN (native integers), the others to JudgeB (BigInt); same JudgeBody, two instantiations.
        Returns the list of verdict tuples ["VERDICT", row id, element index, property, clause]."""
        if not rows:
            return []
        sysrows = [r for r in rows if r.get('k') == 'sys']
        if sysrows:
            rest = [r for r in rows if r.get('k') != 'sys']
            return self.judge_sys(sysrows, nproc=nproc, timeout=timeout) + (self.judge(rest, label, nproc, timeout) if rest else [])
        small = [r for r in rows if _is_small(r)]
        big = [r for r in rows if not _is_small(r)]
        verdicts = []
        # weight: judged elements per row; BigInt rows cost ~8x more per element
        jobs = []
        nproc = nproc or NPROC
        wsmall = sum(_weight(r) for r in small)
        wbig = 25 * sum(_weight(r) for r in big)
        nb = 0 if not big else max(1, min(nproc - (1 if small else 0), round(nproc * wbig / max(1, wsmall + wbig))))
        ns = 0 if not small else max(1, nproc - nb)
        os.makedirs(tlc.WORK, exist_ok=True)
        tmp = tempfile.mkdtemp(prefix='rows-', dir=tlc.WORK)
        try:
            files = []
            for kind, part, n in (('N', small, ns), ('B', big, nb)):
                if not part:
                    continue
                n = max(1, min(n, len(part)))
                part = sorted(part, key=lambda r: -_weight(r))
                batches = [[] for _ in range(n)]
                loads = [0] * n
                for row in part:
                    j = loads.index(min(loads))
                    batches[j].append(row)
                    loads[j] += _weight(row)
                for b, batch in enumerate(batches):
                    if not batch:
                        continue
                    fn = os.path.join(tmp, '%s%d.ndjson' % (kind, b))
                    with open(fn, 'w') as fh:
                        for row in batch:
                            fh.write(common.jdump(row) + '\n')
                    files.append((fn, len(batch), '../Judge%s.tla' % kind))
            with cf.ThreadPoolExecutor(max_workers=len(files)) as ex:
                futs = [ex.submit(tlc.run, mod, 'Judge.cfg', workers=1, env={'TRACE_FILE': fn}, heap='2g', timeout=timeout)
                        for fn, _, mod in files]
                for (fn, n, mod), fu in zip(files, futs):
                    r = fu.result()
                    if os.environ.get('VERIF_KEEP'):
                        sys.stderr.write('%s rows=%d wall=%.1fs\n' % (os.path.basename(fn), n, r.wall))
                    consumed = [p for p in r.printed if isinstance(p, list) and p and p[0] == 'CONSUMED']
                    if r.error or not r.ok or not consumed or consumed[0][1] != n:
                        sys.stderr.write(tlc.error_context(r) + '\n')
                        keep = os.path.join(common.REPLAYS, 'machinery-failed-batch.ndjson')
                        os.makedirs(common.REPLAYS, exist_ok=True)
                        shutil.copy(fn, keep)
                        raise Machinery('judge run (%s) failed or did not consume all rows (%s); batch kept at %s' % (mod, r.error, keep))
                    self.states += r.distinct
                    self.transitions += r.generated
                    verdicts += [p for p in r.printed if isinstance(p, list) and p and p[0] == 'VERDICT']
            self.subruns.append({'label': label, 'kind': 'trace-validation', 'rows': len(rows), 'rows_native_judge': len(small),
                                 'rows_bigint_judge': len(big), 'batches': len(files), 'verdicts': len(verdicts)})
            self.traces += len(rows)
            return verdicts
        finally:
            if os.environ.get('VERIF_KEEP'):
                sys.stderr.write('kept judge batches in %s\n' % tmp)
            else:
                shutil.rmtree(tmp, ignore_errors=True)

    def judge_sys(self, rows, nproc=None, timeout=3600):
        """rows of kind "sys" (one per call, grouped in behaviours by row['b']): validated by FxpTrace.tla, which replays
        every behaviour through FxpSystem's Step and compares the projection of every object after every call."""
        nproc = nproc or NPROC
        t_start = time.time()
        groups = {}
        for r in rows:
            groups.setdefault(r['b'], []).append(r)
        keys = list(groups)
        nfiles = max(1, min(nproc, len(keys)))
        os.makedirs(tlc.WORK, exist_ok=True)
        tmp = tempfile.mkdtemp(prefix='trace-', dir=tlc.WORK)
        try:
            files = []
            for b in range(nfiles):
                part = [r for k in keys[b::nfiles] for r in groups[k]]
                if not part:
                    continue
                fn = os.path.join(tmp, 't%d.ndjson' % b)
                with open(fn, 'w') as fh:
                    for r in part:
                        fh.write(common.jdump(r) + '\n')
                files.append((fn, len(part)))
            verdicts, skipped = [], 0
            with cf.ThreadPoolExecutor(max_workers=len(files)) as ex:
                futs = [ex.submit(tlc.run, '../FxpTrace.tla', 'FxpTrace.cfg', workers=1, env={'TRACE_FILE': fn}, heap='2g', timeout=timeout)
                        for fn, _ in files]
                for (fn, n), fu in zip(files, futs):
                    r = fu.result()
                    consumed = [p for p in r.printed if isinstance(p, list) and p and p[0] == 'CONSUMED']
                    if r.error or not r.ok or not consumed or consumed[0][1] != n:
                        sys.stderr.write(tlc.error_context(r) + '\n')
                        keep = os.path.join(common.REPLAYS, 'machinery-failed-trace.ndjson')
                        os.makedirs(common.REPLAYS, exist_ok=True)
                        shutil.copy(fn, keep)
                        raise Machinery('trace validation failed or did not consume all events (%s); trace kept at %s' % (r.error, keep))
                    self.states += r.distinct
                    self.transitions += r.generated
                    verdicts += [p for p in r.printed if isinstance(p, list) and p and p[0] == 'VERDICT']
                    skipped += len([p for p in r.printed if isinstance(p, list) and p and p[0] == 'SKIPPED'])
            self.subruns.append({'label': 'FxpTrace', 'kind': 'trace-validation', 'wall_s': round(time.time() - t_start, 1), 'events': len(rows), 'behaviours': len(keys),
                                 'files': len(files), 'verdicts': len(verdicts), 'events_skipped_after_a_mismatch': skipped})
            self.traces += len(keys)
            return verdicts
        finally:
            if os.environ.get('VERIF_KEEP'):
                sys.stderr.write('kept traces in %s\n' % tmp)
            else:
                shutil.rmtree(tmp, ignore_errors=True)

    # ---------------------------------------------------------------- results
    def add_violation(self, prop, clause, row, index, note=None):
        self.violations.append({'property': prop, 'clause': clause, 'index': index, 'row': row, 'note': note})

    def sample(self, obj, limit=6):
        if len(self.samples) < limit:
            self.samples.append(obj)


def _walk_small(o):
    """True iff every wire integer in o has at most one limb and every exponent / size is tiny"""
    if isinstance(o, bool) or o is None or isinstance(o, str):
        return True
    if isinstance(o, int):
        return -24 <= o <= 4096
    if isinstance(o, list):
        if o and all(isinstance(x, int) and not isinstance(x, bool) for x in o) and o[0] in (0, 1):
            return len(o) <= 2          # a wire integer (or a tiny list of 0/1 ...): single limb only
        return all(_walk_small(x) for x in o)
    if isinstance(o, dict):
        return all(_walk_small(v) for k, v in o.items() if k not in ('id', 'p', 'note', 'msg', 'glo', 'ghi'))
    return False


def _is_small(row):
    """rows of the exhaustive small worlds are tagged nat by their executor; the tag is honoured only if the
    content really is small (otherwise TLC would stop with an integer overflow - a machinery failure)"""
    return bool(row.get('nat')) and _walk_small(row)


def _weight(row):
    v = row.get('v')
    return len(v) if isinstance(v, list) and v else int(row.get('n', 1) or 1)


def write_replay(pid, v):
    os.makedirs(os.path.join(common.REPLAYS, pid), exist_ok=True)
    blob = common.jdump(v)
    h = hashlib.sha1(blob.encode()).hexdigest()[:12]
    fn = os.path.join(common.REPLAYS, pid, h + '.json')
    with open(fn, 'w') as fh:
        json.dump(v, fh, indent=1)
    return fn


def parallel_map(fn, items, nproc=None, chunksize=1):
    """Run fn over items in forked worker processes (each imports fxpmath from /repo itself)."""
    nproc = nproc or NPROC
    if nproc <= 1 or len(items) <= 1:
        return [fn(it) for it in items]
    import multiprocessing as mp
    ctx = mp.get_context('fork')
    with ctx.Pool(min(nproc, len(items))) as pool:
        return pool.map(fn, items, chunksize=chunksize)


def stream(small_fn, small_jobs, wide_fn, wide_jobs, tier, step=200, chunksize=2, extra=None):
    """quick tier: one list; thorough tier: a generator of chunks (execute a slice of the jobs, hand the observations to the
    judge, forget them) so that memory stays bounded however large the small world is"""
    if tier == 'quick':
        obs = []
        for part in parallel_map(small_fn, small_jobs, chunksize=chunksize):
            obs += part
        for part in parallel_map(wide_fn, wide_jobs):
            obs += part
        return obs + (extra or [])
    return _gen(small_fn, small_jobs, wide_fn, wide_jobs, step, chunksize, extra)


def _gen(small_fn, small_jobs, wide_fn, wide_jobs, step, chunksize, extra=None):
    for k in range(0, len(small_jobs), step):
        obs = []
        for part in parallel_map(small_fn, small_jobs[k:k + step], chunksize=chunksize):
            obs += part
        yield obs
    for k in range(0, len(wide_jobs), 4):
        obs = []
        for part in parallel_map(wide_fn, wide_jobs[k:k + 4]):
            obs += part
        yield obs
    if extra:
        yield extra
