"""Replaying behaviours of FxpSystem (sequences of action records) on REAL Fxp objects and logging, after every call,
the projection of every object held - the trace that FxpTrace.tla validates."""
import fractions
from . import common
from .common import wdy, chars

F = fractions.Fraction


class Recorder:
    """a callback object (public API): records which callbacks a write fires, in order"""
    def __init__(self):
        self.ev = []

    def on_status_overflow(self, x):
        self.ev.append('overflow')

    def on_status_underflow(self, x):
        self.ev.append('underflow')

    def on_status_inaccuracy(self, x):
        self.ev.append('inaccuracy')

    def on_value_change(self, x):
        self.ev.append('change')

    def __deepcopy__(self, memo):
        return Recorder()


def val(k4, t):
    return float(F(k4, 4) / F(2) ** t['f'])


def project(np, o):
    if o is None:
        return {'null': True}
    st = o.status
    return {'fmt': {'s': bool(o.signed), 'w': int(o.n_word), 'f': int(o.n_frac)},
            'codes': [int(c) for c in np.asarray(o.val).ravel().tolist()],
            'cfg': {'rnd': o.config.rounding, 'ovf': o.config.overflow},
            'st': {'o': bool(st.get('overflow')), 'u': bool(st.get('underflow')), 'i': bool(st.get('inaccuracy'))},
            # the indicator as reported; a MISSING key is reported as the value that cannot be right
            'ext': bool(st['extended_prec']) if 'extended_prec' in st else (int(o.n_word) < 64),
            'stkeys': sorted(str(k) for k in st.keys()),
            'wf': {'ni': int(o.n_int), 'up': wdy_small(o.upper), 'lo': wdy_small(o.lower), 'pr': wdy_small(o.precision),
                   'dt': chars(o.dtype)}}


def wdy_small(x):
    """small-world dyadic as plain ints (the native judge reads them directly)"""
    m, e = common.dyadic_of_number(float(x))
    return {'m': int(m), 'e': int(e)}


NAMES = ['a', 'b', 'c', 'd']
BAD = {'rnd': ['nearest-even', 'Around', 'TRUNC', ' floor', 'ceil\n', None, 3, ''],
       'ovf': ['clip', 'Wrap', 'SATURATE', ' wrap', 'saturate ', None, 1, '']}


def run_behaviour(fx, np, bid, h, variant=0, probe=True):
    """h: list of action dicts.  Returns the list of trace rows (one per call)."""
    Fxp = fx.Fxp
    heap = {n: None for n in NAMES}
    rec = {n: None for n in NAMES}
    rows = []

    def adopt(name, obj):
        heap[name] = obj
        r = Recorder()
        obj.callbacks = [r]
        rec[name] = r

    steps = list(h)
    i = 0
    while i < len(steps):
        a = steps[i]
        i += 1
        act = a['act']
        raised, err, cont_ok = False, '', True
        tgt = a.get('x') if act in ('New', 'Store', 'SetItem', 'SetItemFxp', 'Resize', 'Reset', 'SetCfg', 'SetCfgBad', 'Assign', 'Drop', 'IOp', 'SetRaw') else \
            a.get('z') if act == 'BinOpOut' else \
            (a.get('y') if act in ('GetItem', 'CtorLike', 'NewLike', 'Like', 'LikeShallow', 'CopyShallow', 'DeepCopy', 'RShiftKeep', 'LShiftKeep', 'Invert', 'ShiftExpand') else a.get('z'))
        if act in ('Store', 'SetItem', 'SetItemFxp', 'SetRaw') and (variant + bid + i) % 2 == 0:
            _rejected_write(np, heap.get(a['x']))
        for r in rec.values():
            if r is not None:
                r.ev = []
        try:
            if act == 'New':
                t = a['fmt']
                vals = [val(k, t) for k in a['ks']]
                import copy as _copy
                lo_ = -(1 << (t['w'] - 1)) if t['s'] else 0
                hi_ = (1 << (t['w'] - 1)) - 1 if t['s'] else (1 << t['w']) - 1
                exact = all(k % 4 == 0 and lo_ <= k // 4 <= hi_ for k in a['ks']) and t['w'] >= 2
                carrier = (variant + i + bid) % (7 if exact else 3)
                if carrier == 0:
                    cont = list(vals)
                elif carrier == 1:
                    cont = tuple(vals)
                elif carrier == 2:
                    cont = np.array(vals)
                else:
                    # containers of bin / hex strings (the codes rendered as n_word-bit two's-complement images)
                    codes = [k // 4 for k in a['ks']]
                    bins = ['0b' + format(c & ((1 << t['w']) - 1), '0%db' % t['w']) for c in codes]
                    hexs = ['0x' + format(c & ((1 << t['w']) - 1), '0%dX' % ((t['w'] + 3) // 4)) for c in codes]
                    cont = {3: list(bins), 4: [[b] for b in bins], 5: tuple(bins), 6: list(hexs)}[carrier]
                before = _copy.deepcopy(cont)
                obj = Fxp(cont, t['s'], t['w'], t['f'], rounding=a['r'], overflow=a['o'])
                if carrier == 4:
                    obj = Fxp(obj.val.ravel(), t['s'], t['w'], t['f'], raw=True, rounding=a['r'], overflow=a['o'])   # the model's arrays are 1-D
                adopt(a['x'], obj)
                cont_ok = (np.array_equal(cont, before) if isinstance(cont, np.ndarray) else cont == before) and type(cont) is type(before)
            elif act == 'Store':
                o = heap[a['x']]
                vals = [val(k, common.fmt_dict(o)) for k in a['ks']]
                cont = list(vals)
                if (variant + i) % 2:
                    o(cont)
                else:
                    o.set_val(cont)
                cont_ok = cont == vals
            elif act == 'SetItem':
                o = heap[a['x']]
                o[a['j'] - 1] = val(a['k4'], common.fmt_dict(o))
            elif act == 'SetItemFxp':
                heap[a['x']][a['j'] - 1:a['j']] = heap[a['y']]          # a one-element object into a one-element slice
            elif act == 'GetItem':
                src = heap[a['x']]
                adopt(a['y'], src[a['j'] - 1:a['j']] if a['sel'] == 'one' else (src[::-1] if a['sel'] == 'rev' else src[:]))
            elif act == 'RShiftKeep':
                src = heap[a['x']]
                src.config.shifting = ['trunc', 'keep'][(variant + i) % 2]
                adopt(a['y'], src >> (a['n'] if (variant + i) % 2 else np.int64(a['n'])))
            elif act == 'LShiftKeep':
                src = heap[a['x']]
                src.config.shifting = ['trunc', 'keep'][(variant + i) % 2]
                adopt(a['y'], src << a['n'])
            elif act == 'Invert':
                adopt(a['y'], ~heap[a['x']])
            elif act == 'NewLike':
                tm = heap[a['t']]
                vals = [val(k, common.fmt_dict(tm)) for k in a['ks']]
                if a['via'] == 'like':
                    adopt(a['y'], Fxp(vals, like=tm))
                elif a['via'] == 'config':
                    adopt(a['y'], Fxp(vals, bool(tm.signed), int(tm.n_word), int(tm.n_frac), config=tm.config,
                                      overflow='wrap' if tm.config.overflow == 'saturate' else 'saturate'))
                else:
                    Fxp.template = tm                 # the class-level template mechanism
                    try:
                        adopt(a['y'], Fxp(vals))
                    finally:
                        Fxp.template = None
            elif act == 'CtorLike':
                adopt(a['y'], Fxp(heap[a['x']], like=heap[a['t']]))
            elif act in ('Like', 'LikeShallow'):
                adopt(a['y'], heap[a['x']].like(heap[a['t']]))
            elif act == 'CopyShallow':
                y = heap[a['x']].copy()
                heap[a['y']] = y
                rec[a['y']] = rec[a['x']]
            elif act == 'DeepCopy':
                adopt(a['y'], heap[a['x']].deepcopy())
            elif act == 'Resize':
                t = a['fmt']
                o = heap[a['x']]
                if (variant + i + bid) % 4 == 3:
                    # the sizes given as n_int + n_frac (the word follows arithmetically)
                    o.resize(t['s'] if t['s'] != bool(o.signed) else None, None, t['f'], t['w'] - t['f'] - (1 if t['s'] else 0))
                elif (variant + i) % 3 == 2:
                    # only the sizes that change are passed (the others stay None)
                    o.resize(t['s'] if t['s'] != bool(o.signed) else None, t['w'] if t['w'] != o.n_word else None,
                             t['f'] if t['f'] != o.n_frac else None)
                elif (variant + i) % 3 == 1:
                    heap[a['x']].resize(t['s'], t['w'], t['f'])
                else:
                    heap[a['x']].resize(dtype='fxp-%s%d/%d' % ('s' if t['s'] else 'u', t['w'], t['f']))
            elif act == 'Assign':
                if a['via'] == 'call':
                    heap[a['x']](heap[a['y']])
                else:
                    heap[a['x']].equal(heap[a['y']])
            elif act == 'Reset':
                heap[a['x']].reset()
            elif act == 'SetCfg':
                o = heap[a['x']]
                key = 'rounding' if a['key'] == 'rnd' else 'overflow'
                route = (variant + i) % 3
                if route == 0:
                    setattr(o, key, a['val'])
                elif route == 1:
                    setattr(o.config, key, a['val'])
                else:
                    o.config.update(**{key: a['val']})
            elif act == 'SetCfgBad':
                o = heap[a['x']]
                key = 'rounding' if a['key'] == 'rnd' else 'overflow'
                bad = BAD[a['key']][(variant + i + bid) % len(BAD[a['key']])]
                try:
                    if (variant + i) % 2:
                        setattr(o, key, bad)
                    else:
                        setattr(o.config, key, bad)
                except (ValueError, TypeError) as ex:
                    raised, err = True, type(ex).__name__
            elif act == 'BinOp':
                x, y = heap[a['x']], heap[a['y']]
                if a['op'] == 'sub':
                    adopt(a['z'], [lambda: x - y, lambda: fx.sub(x, y), lambda: np.subtract(x, y)][(variant + i) % 3]())
                else:
                    adopt(a['z'], (x + y) if a['op'] == 'add' else (x * y))
            elif act == 'BitOp':
                import operator as _op
                x, y = heap[a['x']], heap[a['y']]
                f = {'and': _op.and_, 'or': _op.or_, 'xor': _op.xor}[a['op']]
                adopt(a['z'], f(x, y[0]))                # an array combines with a SCALAR fixed-point operand
            elif act == 'BitMask':
                import operator as _op
                x = heap[a['x']]
                f = {'and': _op.and_, 'or': _op.or_, 'xor': _op.xor}[a['op']]
                m = int(a['m']) if (variant + i) % 2 else np.int64(a['m'])
                adopt(a['z'], f(x, m) if a['side'] == 'r' else f(int(a['m']), x))
            elif act == 'ShiftExpand':
                src = heap[a['x']]
                src.config.shifting = 'expand'
                n = int(a['n'])               # (a NumPy-typed count is refused in expand mode: 'n_word must be integer'; not C14's subject)
                adopt(a['y'], (src << n) if a['dir'] == 'l' else (src >> n))
            elif act == 'Reduce':
                x = heap[a['x']]
                rd = a['red']
                route = (variant + i + bid) % 2
                if rd == 'cumsum':
                    z = np.cumsum(x) if route else x.cumsum()
                else:
                    f = {'sum': np.sum, 'max': np.max, 'min': np.min}[rd]
                    z = f(x, keepdims=True) if route else getattr(x, rd)(keepdims=True)       # (the model's objects are 1-D arrays)
                adopt(a['z'], z)
            elif act == 'BinOpConst':
                x = heap[a['x']]
                k = val(a['k4'], common.fmt_dict(x))
                op, left = a['op'], a['side'] == 'l'
                # (a NumPy scalar on the LEFT goes through NumPy's own dispatch, which sizes the constant on its own: plain numbers there)
                kk = k if left else [k, np.float64(k), int(k) if float(k).is_integer() else k][(variant + i) % 3]
                if op == 'add':
                    z = (kk + x) if left else (x + kk)
                elif op == 'sub':
                    z = (kk - x) if left else (x - kk)
                else:
                    z = (kk * x) if left else (x * kk)
                adopt(a['z'], z)
            elif act == 'IOp':
                x, y = heap[a['x']], heap[a['y']]
                if a['op'] == 'add':
                    x += y
                elif a['op'] == 'sub':
                    x -= y
                else:
                    x *= y
                adopt(a['x'], x)                           # the name is rebound to what the operator returned
            elif act == 'SetRaw':
                o = heap[a['x']]
                cs = [int(c) for c in a['cs']]
                cont = [list(cs), tuple(cs), np.array(cs, dtype=np.int64)][(variant + i + bid) % 3]
                o.set_val(cont, raw=True)
                cont_ok = [int(c) for c in cont] == cs
            elif act == 'BinOpOut':
                x, y, z = heap[a['x']], heap[a['y']], heap[a['z']]
                fn = fx.add if a['op'] == 'add' else fx.mul
                if (variant + i) % 2:
                    r = fn(x, y, out=z)
                else:
                    x.config.op_out = z
                    try:
                        r = (x + y) if a['op'] == 'add' else (x * y)
                    finally:
                        x.config.op_out = None
                if r is not z:
                    raise AssertionError('result is not the out object')
            elif act == 'Neg':
                adopt(a['z'], -heap[a['x']])
            elif act == 'Drop':
                heap[a['x']] = None
                rec[a['x']] = None
            else:
                raise ValueError('unknown action ' + act)
        except Exception as ex:
            raised, err = True, type(ex).__name__ + ':' + str(ex)[:80]
        try:
            obs = {n: project(np, heap[n]) for n in NAMES}
        except Exception as ex:
            obs = {n: {'null': True} for n in NAMES}
            raised, err = True, 'projection:' + type(ex).__name__ + ':' + str(ex)[:80]
        cb = list(rec[tgt].ev) if (tgt in rec and rec[tgt] is not None and act in ('Store', 'SetItem', 'SetItemFxp', 'SetRaw')) else []
        rows.append({'k': 'sys', 'b': bid, 'i': i, 'a': a, 'obs': obs, 'cb': cb, 'raised': bool(raised), 'err': err, 'cont': bool(cont_ok),
                     'route': act, 'carrier': 'heap'})
        if raised and act != 'SetCfgBad':
            break
        if i == len(h) and probe:
            steps += _probe_suffix(np, heap, tgt, bid + variant)
    return rows


def _rejected_write(np, o):
    """DISTURBANCE before a write: an indexed write that is REJECTED (index out of range) with an out-of-range value, and reset().
    Only on objects whose flags are all clear (the failed write may raise a flag before it fails; reset() clears it again), so the
    object is what it was - and the next accepted write must report exactly its own conditions, once."""
    try:
        if o is None or o.val is None or np.ndim(o.val) != 1:
            return
        st = o.status
        if st.get('overflow') or st.get('underflow') or st.get('inaccuracy'):
            return
        big = float(2.0 ** (int(o.n_word) - int(o.n_frac) + 2))
        for bad in (lambda: o.__setitem__(int(np.size(o.val)) + 3, big), lambda: o.__setitem__(slice(0, 1), [-big, big, 0.3]),
                    lambda: o.set_val(-big - 0.3, index=int(np.size(o.val)) + 5)):
            try:
                bad()
            except Exception:
                pass
        o.reset()
    except Exception:
        pass


def _probe_suffix(np, heap, tgt, salt):
    """INTERFERENCE PROBE appended to a behaviour: the object the last call was about is reconfigured and written with a value
    that raises flags (two more actions of the specification).  The model covers every TRANSITION once, but the real objects
    carry their whole history: whatever route built this object, mutating it now must not show in any other object."""
    o = heap.get(tgt)
    if o is None or o.val is None:
        return []
    try:
        n = int(np.size(o.val))
        if n not in (1, 2) or np.ndim(o.val) != 1:
            return []
        w, sg = int(o.n_word), bool(o.signed)
        hi = (1 << (w - 1)) - 1 if sg else (1 << w) - 1
        lo = -(1 << (w - 1)) if sg else 0
        rnd = 'around' if o.config.rounding != 'around' else 'floor'
        ovf = 'wrap' if o.config.overflow != 'wrap' else 'saturate'
        ks = [4 * hi + 6, 4 * lo - 5][:n] if salt % 2 else [2, 4 * hi + 6][:n]
        pre = []
        if salt % 2 == 0:
            # first an element write (the largest value of its format: exact, no flag) into every OTHER 1-D object and into the
            # target itself: whatever memory the real objects share beyond what the model says shows up in the comparison
            for name in NAMES:
                p = heap.get(name)
                if p is None or p.val is None or np.ndim(p.val) != 1 or int(np.size(p.val)) not in (1, 2):
                    continue
                ph = (1 << (int(p.n_word) - 1)) - 1 if bool(p.signed) else (1 << int(p.n_word)) - 1
                pre.append({'act': 'SetItem', 'x': name, 'j': int(np.size(p.val)), 'k4': 4 * ph})
        return pre + [{'act': 'SetCfg', 'x': tgt, 'key': 'rnd', 'val': rnd}, {'act': 'SetCfg', 'x': tgt, 'key': 'ovf', 'val': ovf},
                      {'act': 'Store', 'x': tgt, 'ks': ks}]
    except Exception:
        return []
