"""C18: extended precision - words of 64..256 bits store and render integers bit-exactly.

Model side: the operators the judge uses at these widths are the ones model-checked at small widths (MC_Store, MC_Bits,
MC_Text), BigInt is checked against native integers (MC_BigInt) and the two instantiations of the functor agree (MC_Functor).
The property itself lives on wide words: seeded, boundary-directed events of the real code judged by TLC over BigInt.
"""
import random, fractions
from .. import common, core, x_store, x_text, x_bits
from .arith import rng_of

F = fractions.Fraction
WORDS = [64, 65, 66, 72, 96, 127, 128, 129, 200, 256]


def _codes(rng, t):
    s, w, f = t
    lo, hi = rng_of(t)
    m = 1 << w
    c = [lo, hi, lo - 1, hi + 1, lo + 1, hi - 1, 0, 1, -1, m, -m, m - 1, 2 * m, 3 * m + 5, -2 * m - 7, hi + m, lo - m,
         (1 << 63), (1 << 63) - 1, (1 << 64) - 1, (1 << 64), -(1 << 63), -(1 << 63) - 1, (1 << 53) + 1]
    c += [rng.randint(lo, hi) for _ in range(4)]
    c += [rng.choice([-1, 1]) * rng.getrandbits(rng.choice([w - 1, w, w + 1, 2 * w, 4 * w])) for _ in range(6)]
    return c


def _exec(args):
    seed, count = args
    fx = common.import_fxpmath()
    import numpy as np
    rng = random.Random(seed)
    out = []
    for _ in range(count):
        s = rng.random() < 0.5
        w = rng.choice(WORDS)
        f = rng.choice([0, 1, w // 2, w - 1, w])
        t = (s, w, f)
        o = rng.choice(['saturate', 'wrap'])
        lo, hi = rng_of(t)
        codes = _codes(rng, t)
        # (1) Python integers as CODES (raw=True): scalars by every raw route, and arrays
        route = rng.choice(['ctor', 'set_val', 'setitem', 'call-reset'])
        out.append(x_store.observe(fx, np, t, ('trunc', o), codes, 'pyint', route, ['C18'], False, raw=True))
        out.append(x_store.observe(fx, np, t, ('trunc', o), codes, 'pyint', 'widen-setitem', ['C18'], False, raw=True))
        # containers where NumPy on its own would pick float64: items in [2^63, 2^64) next to int64 items, nothing wider
        band = [(1 << 63) + 1, 5, (1 << 64) - 1, rng.randint(1 << 63, (1 << 64) - 1), -1 if s else 1, rng.randint(0, 1 << 62)]
        rng.shuffle(band)
        out.append(x_store.observe(fx, np, t, ('trunc', o), band, rng.choice(['list', 'tuple', 'nested-list', 'nested-tuple', 'list-1xk', 'list-3d', 'obj-2d-F', 'obj-2d-T', 'obj-3d-swap']),
                                   rng.choice(['ctor', 'set_val']), ['C18'], True, raw=True))
        # ... and containers whose items ALL lie in [2^63, 2^64) (NumPy picks uint64 for them)
        top = [(1 << 63), (1 << 64) - 1, (1 << 63) + 5, rng.randint(1 << 63, (1 << 64) - 1)][:rng.choice([1, 2, 4])]
        out.append(x_store.observe(fx, np, t, ('trunc', o), top, rng.choice(['list', 'tuple', 'list-1xk', 'nested-list']) if len(top) != 1 else rng.choice(['list', 'tuple', 'list-1xk']),
                                   rng.choice(['ctor', 'set_val']), ['C18'], True, raw=True))
        if f <= 8:
            out.append(x_store.observe(fx, np, t, ('trunc', o), [F(b) for b in top], 'pyint-' + (rng.choice(['list', 'tuple', 'list-1xk']) if len(top) != 1 else 'list'),
                                       rng.choice(['ctor', 'call', 'set_val']), ['C18'], True))
        if f <= 8:
            out.append(x_store.observe(fx, np, t, ('trunc', o), [F(b) for b in band], 'pyint-' + rng.choice(['list', 'nested-list', 'nested-tuple', 'list-1xk', 'obj-2d-F', 'obj-2d-T', 'obj-3d-swap']),
                                       rng.choice(['ctor', 'call', 'set_val']), ['C18'], True))
        inr = [c for c in codes if lo <= c <= hi]
        out.append(x_store.observe(fx, np, t, ('trunc', o), codes[:12], rng.choice(['list', 'ndarray-obj']), rng.choice(['ctor', 'set_val']), ['C18'], True, raw=True))
        out.append(x_store.observe(fx, np, t, ('trunc', o), inr[:8] or [0], 'list', 'ctor', ['C18'], True, raw=True))
        # (2) Python integers as integer VALUES (scaled by 2^n_frac)
        vals = [F(c) for c in (codes[:10] + [c >> f for c in codes[:14]])]
        out.append(x_store.observe(fx, np, t, ('trunc', o), vals, 'pyint', rng.choice(['ctor', 'call', 'set_val', 'setitem', 'call-reset', 'widen-setitem']), ['C18'], False))
        # (3) bin / hex strings in raw mode (rendered by the real code from in-range codes), scalars and arrays
        inr = inr or [0]
        for kind, rt in (('bin0b', 'ctor'), ('hex', 'ctor'), ('bin', 'from_bin'), ('hex', 'set_val'), ('bin0b', 'set_val')):
            out.append(x_text.observe_parse(fx, np, ['C18'], t, rng.choice(inr), kind, rt, True))
        out.append(x_text.observe_parse(fx, np, ['C18'], t, inr[:6], rng.choice(['bin0b', 'hex']), rng.choice(['ctor', 'set_val']), True))
        # (4) bin(), hex() exact at these widths
        for kind in ('bin', 'hex', 'binp', 'bin0b'):
            out.append(x_text.observe_render(fx, np, ['C18'], t, rng.choice(inr), kind))
        out.append(x_text.observe_render(fx, np, ['C18'], t, inr[:6], rng.choice(['bin', 'hex'])))
        # (5) bitwise operators exact at these widths
        ty = (rng.random() < 0.5, w, rng.choice([0, w]))
        ly, hy = rng_of(ty)
        out.append(x_bits.observe_bitwise(fx, np, ['C18'], 'not', t, [rng.choice(inr)], scalar=True))
        out.append(x_bits.observe_bitwise(fx, np, ['C18'], 'not', t, inr[:6]))
        for op in ('and', 'or', 'xor'):
            out.append(x_bits.observe_bitwise(fx, np, ['C18'], op, t, [rng.choice(inr)], ty=ty, cys=rng.choice([ly, hy, rng.randint(ly, hy)]), scalar=True))
            out.append(x_bits.observe_bitwise(fx, np, ['C18'], op, t, inr[:6], mask=rng.getrandbits(w), side=rng.choice(['left', 'right'])))
        from .bits import wide_nd_and_inplace
        out += wide_nd_and_inplace(fx, np, 'C18', rng, t, ty)
        # (6) the indicator: exactly when n_word >= 64, however the object was obtained and whatever happened to it since
        out.append(_indicator(fx, np, rng))
    return [o for o in out if o is not None]


def _indicator(fx, np, rng):
    Fxp = fx.Fxp
    obs = []

    def rec(x, how):
        st = x.status
        obs.append({'w': int(x.n_word), 'ext': bool(st['extended_prec']) if 'extended_prec' in st else (int(x.n_word) < 64), 'how': how})
    try:
        small = rng.choice([1, 8, 31, 32, 33, 52, 63])
        wide = rng.choice(WORDS)
        for w in (small, wide):
            s = rng.random() < 0.5
            x = Fxp(3 if w > 2 else 0, s, w, 0)
            rec(x, 'ctor')
            rec(Fxp(None, dtype='fxp-%s%d/0' % ('s' if s else 'u', w)), 'ctor-dtype')
            x.reset(); rec(x, 'reset')
            x(1 if w > 1 or not s else 0); rec(x, 'write-after-reset')
            rec(Fxp(1 if w > 1 or not s else 0, like=x), 'like=')
            rec(Fxp(like=x), 'like=-empty')
            rec(x.deepcopy(), 'deepcopy')
            t = Fxp(None, s, w, 0)
            rec(Fxp(0, True, 4, 0).like(t), 'like()')
            a = Fxp([0, 1] if (w > 1 or not s) else [0, 0], s, w, 0)
            rec(a[0], 'getitem'); rec(a[0:1], 'slice')
            rec(-x, 'neg'); rec(x + x, 'add'); rec(x * x, 'mul'); rec(~x, 'invert'); rec(x >> 1, 'rshift'); rec(x << 1, 'lshift')
            y = x.deepcopy(); y.resize(n_word=wide if w == small else small); rec(y, 'resize-across')
            y.resize(n_word=w); rec(y, 'resize-back')
            y.reset(); rec(y, 'resize-reset')
        x63, x1 = Fxp(1, False, 63, 0), Fxp(1, False, 1, 0)
        rec(x63 + x63, 'add-63'); rec(x63 * x1, 'mul-63x1'); rec(x63 * x63, 'mul-63x63')
        return {'k': 'extflag', 'p': ['C18'], 'obs': obs, 'route': 'indicator', 'carrier': 'objects', 'v': [0] * len(obs)}
    except Exception as ex:
        return {'k': 'error', 'p': ['C18'], 'route': 'indicator', 'carrier': 'objects', 'err': type(ex).__name__, 'msg': str(ex)[:200]}


def run(chk):
    tier = chk.tier
    chk.model_check('MC_BigInt.tla', 'MC_BigInt_prod.cfg', label='BigInt(B=2^15) vs native Int')
    chk.model_check('MC_Functor.tla', 'MC_Functor.cfg', label='native and BigInt instantiations of FxpMath/FxpOps/FxpText agree')
    chk.model_check('MC_Store.tla', 'MC_Store_C03_quick.cfg', label='wrap/saturate operators at small widths')
    chk.model_check('MC_Bits.tla', 'MC_Bits_C13_quick.cfg', label='bitwise operators at small widths')
    chk.model_check('MC_Text.tla', 'MC_Text_C11_quick.cfg', label='bin/hex images and parsers at small widths')
    n = 200 if tier == 'quick' else 5000
    obs = []
    for part in core.parallel_map(_exec, [(chk.seed * 1000 + i, n // core.NPROC + 1) for i in range(core.NPROC)]):
        obs += part
    from .. import suite
    obs += suite.suite_rows('C18', chk)          # the repository's own test-suite, traced (integer stores into 64+ bit words)
    return obs
