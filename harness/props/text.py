"""C11 (bin/hex strings are faithful images and parse back) and C12 (dtype strings <-> formats)."""
import random
from .. import common, core, x_text
from .arith import rng_of, _tag

RENDER = ['bin', 'binp', 'bin0b', 'binp0b', 'hex']
PARSE = [('bin0b', 'ctor', False), ('bin0b', 'call', False), ('bin0b', 'set_val', False), ('binp0b', 'ctor', False), ('binp0b', 'set_val', False),
         ('bin', 'from_bin', False), ('binp', 'from_bin', False), ('bin', 'fn_from_bin', False), ('hex', 'ctor', False), ('hex', 'call', False),
         ('hex', 'set_val', False), ('bin0b', 'ctor', True), ('bin0b', 'set_val', True), ('bin', 'from_bin', True), ('hex', 'ctor', True),
         ('hex', 'set_val', True)]


def _c11_small(args):
    row, pid, tier, idx = args
    fx = common.import_fxpmath()
    import numpy as np
    t = (row['s'], row['w'], row['f'])
    lo, hi = rng_of(t)
    codes = list(range(lo, hi + 1))
    out = []
    for kind in RENDER:
        out.append(x_text.observe_render(fx, np, [pid], t, codes, kind))
        out.append(x_text.observe_render(fx, np, [pid], t, codes, kind, shape=(2, len(codes) // 2)))
        for c in (codes if (tier == 'thorough' or len(codes) <= 16) else [lo, hi, 0, -1 if t[0] else 1, codes[idx % len(codes)]]):
            out.append(x_text.observe_render(fx, np, [pid], t, c, kind))
    # objects with a history: derived from / mutated after an already rendered object
    for j, how in enumerate(x_text.DERIVE):
        kind = RENDER[(idx + j) % len(RENDER)]
        if t[2] <= t[1] - (2 if how == 'lshift' else 0):
            out.append(x_text.observe_render_derived(fx, np, [pid], t, codes, kind, how, shape=(2, len(codes) // 2) if how == 'T' else None))
    for b in (2, 8, 10, 16, 3):
        out.append(x_text.observe_render(fx, np, [pid], t, codes, 'base', base=b))
        out.append(x_text.observe_render(fx, np, [pid], t, codes[idx % len(codes)], 'base', base=b))
    for kind, route, raw in PARSE:
        out.append(x_text.observe_parse(fx, np, [pid], t, codes, kind, route, raw))
        out.append(x_text.observe_parse(fx, np, [pid], t, codes, kind, route, raw, shape=(2, len(codes) // 2)))
        for c in ([lo, hi, 0] + ([] if tier != 'thorough' else codes)):
            out.append(x_text.observe_parse(fx, np, [pid], t, c, kind, route, raw))
        if (idx + len(out)) % 3 == 0 or tier == 'thorough':
            out.append(x_text.observe_parse(fx, np, [pid], t, codes, kind, route, raw, shape=[None, (2, len(codes) // 2)][idx % 2], npfeed=True))
            out.append(x_text.observe_parse(fx, np, [pid], t, codes[idx % len(codes)], kind, route, raw, npfeed=True))
    return _tag(out)


def _c11_wide(args):
    seed, pid, count = args
    fx = common.import_fxpmath()
    import numpy as np
    rng = random.Random(seed)
    out = []
    for _ in range(count):
        s = rng.random() < 0.5
        w = rng.choice([9, 12, 16, 31, 32, 33, 52, 53, 63, 64, 65, 66, 100, 127, 128, 129, 200, 256, rng.randint(2, 256)])
        f = rng.choice([0, w, w // 2, rng.randint(0, w)])
        t = (s, w, f)
        lo, hi = rng_of(t)
        codes = [lo, hi, 0, 1, -1 if s else 2, lo + 1, hi - 1, hi >> 1, (hi >> 1) + 1] + [rng.randint(lo, hi) for _ in range(3)]
        codes = [min(hi, max(lo, c)) for c in codes]
        for kind in RENDER:
            out.append(x_text.observe_render(fx, np, [pid], t, rng.choice(codes), kind))
            if rng.random() < 0.5:
                out.append(x_text.observe_render(fx, np, [pid], t, codes, kind, shape=rng.choice([None, (2, 6)])))
        out.append(x_text.observe_render(fx, np, [pid], t, rng.choice(codes), 'base', base=rng.choice([2, 8, 10, 16, 7, 36])))
        for kind, route, raw in rng.sample(PARSE, 5):
            if not raw and w > 53:
                continue            # value mode is stated for n_word <= 53
            out.append(x_text.observe_parse(fx, np, [pid], t, rng.choice(codes), kind, route, raw))
            if rng.random() < 0.5:
                out.append(x_text.observe_parse(fx, np, [pid], t, codes, kind, route, raw, shape=rng.choice([None, (2, 6)])))
            if rng.random() < 0.4:
                out.append(x_text.observe_parse(fx, np, [pid], t, rng.choice([rng.choice(codes), codes]), kind, route, raw, npfeed=True))
            if rng.random() < 0.2:
                out.append(x_text.observe_parse(fx, np, [pid], t, codes, kind, route, raw, shape=(2, 6), npfeed=True))
    return [o for o in out if o is not None]


S = lambda a: ''.join(chr(c) for c in a)
RROUTES = ['dtype-default', 'dtype-Q', 'get_dtype(fxp)|fxp', 'get_dtype(Q)|fxp', 'get_dtype(fxp)|Q', 'get_dtype(Q)|Q', 'get_dtype()|Q', 'get_dtype()|fxp',
           'get_dtype(fxp)|fxp|after(Q)', 'get_dtype()|fxp|after(Q)', 'get_dtype(Q)|Q|after(fxp)', 'get_dtype()|Q|after(fxp)', 'get_dtype(Q)|fxp|after(fxp)',
           'get_dtype(fxp)|Q|after(Q)', 'get_dtype()|Q|reconf', 'get_dtype()|fxp|reconf', 'get_dtype(Q)|Q|reconf', 'get_dtype(fxp)|fxp|reconf']


def _c12_rows(fx, np, pid, t, strings, rng=None, full=True):
    out = []
    m_ok = True          # (Q notation for every format: the integer part m = n_word - n_frac may be negative, 'Q-3.11')
    for route in RROUTES:
        if 'Q' in route:          # (any Q rendering, asked for or made on the way)
            if not m_ok:
                continue            # Q notation is stated whenever m = n_word - n_frac >= 0
        out.append(x_text.observe_dtype_render(fx, np, [pid], t, False, route))
    if t[1] <= 52:
        for route in ('dtype-default', 'get_dtype(fxp)|fxp', 'get_dtype(fxp)|Q'):
            out.append(x_text.observe_dtype_render(fx, np, [pid], t, True, route))
        for route in ('dtype-default#zero-imag', 'get_dtype(fxp)|fxp#zero-imag', 'get_dtype()|fxp|after(Q)#zero-imag', 'dtype-default#conjprod'):
            out.append(x_text.observe_dtype_render(fx, np, [pid], t, True, route))
    for spelling, st, cplx in strings:
        if not st:
            continue
        for route in ('ctor', 'resize', 'ctor-val', 'resize-same', 'ctor-like', 'ctor-template', 'ctor-template-kw'):
            if cplx and t[1] > 52:
                continue
            out.append(x_text.observe_dtype_parse(fx, np, [pid], t, cplx, st, spelling, route))
        if spelling in ('fxp', 'fxp-complex'):      # fxp_sum(dtype=x.dtype): the spellings x.dtype produces
            out.append(x_text.observe_dtype_parse(fx, np, [pid], t, cplx, st, spelling, 'get_sizes'))
            if t[1] <= 40 and -8 <= t[2] <= 40:
                out.append(x_text.observe_dtype_parse(fx, np, [pid], t, cplx, st, spelling, 'fxp_sum'))
    out.append(x_text.observe_dtype_parse(fx, np, [pid], t, False, '', 'fxp', 'roundtrip'))
    if m_ok:
        out.append(x_text.observe_dtype_parse(fx, np, [pid], t, False, '', 'Q', 'roundtrip'))
    if t[1] <= 52:
        out.append(x_text.observe_dtype_parse(fx, np, [pid], t, True, '', 'fxp', 'roundtrip'))
    return out


def _c12_small(args):
    row, pid, tier, idx = args
    fx = common.import_fxpmath()
    import numpy as np
    t = (row['s'], row['w'], row['f'])
    strings = [('fxp', S(row['fxp']), False), ('fxp-complex', S(row['fxpc']), True), ('fxp-upper', S(row['fxpU']), True),
               ('Q', S(row['q']), False), ('Q-lower', S(row['ql']), False), ('S/U', S(row['su']), False), ('S/U-lower', S(row['sul']), False)]
    return _tag(_c12_rows(fx, np, pid, t, strings))


def _c12_wide(args):
    seed, pid, count = args
    fx = common.import_fxpmath()
    import numpy as np
    rng = random.Random(seed)
    out = []
    for _ in range(count):
        s = rng.random() < 0.5
        w = rng.choice([41, 52, 53, 63, 64, 65, 100, 128, 200, 255, 256, rng.randint(41, 256)])
        f = rng.choice([-8, -1, 0, w, w + 8, rng.randint(-8, w + 8)])
        t = (s, w, f)
        # spellings for wide formats are produced by the REAL renderer (judged as render rows) and fed back (roundtrip route)
        out += _c12_rows(fx, np, pid, t, [])
    return [o for o in out if o is not None]


def run(chk):
    pid, tier = chk.pid, chk.tier
    rows, r = chk.model_check('MC_Text.tla', 'MC_Text_%s_%s.cfg' % (pid, tier), label='MC_Text', must_print=True)
    rows = [x for x in rows if x.get('k') in ('text', 'dtype')]
    chk.extra['small_world'] = {'formats': len(rows)}
    chk.exhaustive = True
    small, wide = (_c11_small, _c11_wide) if pid == 'C11' else (_c12_small, _c12_wide)
    n = (400 if tier == 'quick' else 6000)
    per = max(1, n // (core.NPROC * (1 if tier == 'quick' else 8)))
    wjobs = [(chk.seed * 1000 + i, pid, per) for i in range(n // per)]
    return core.stream(small, [(row, pid, tier, i) for i, row in enumerate(rows)], wide, wjobs, tier, step=80)
