"""C06: size inference picks the smallest format that holds the values exactly."""
import random, fractions
from .. import common, core
from .common_exec import obs_infer

F = fractions.Fraction
NONE = -99


def _small(args):
    rows, pid, tier = args
    fx = common.import_fxpmath()
    import numpy as np
    out = []
    for row in rows:
        S = row['S']
        vals = [F(row['v1'], 1 << S), F(row['v2'], 1 << S)]
        if row['v1'] == row['v2']:
            vals = vals[:1]
        o = obs_infer(fx, np, [pid], vals, row['sa'], row['given'], row['nw'], row['nf'], row['ni'], row['cap'],
                      carrier='scalar' if len(vals) == 1 else ['list', 'ndarray'][(row['v1'] + row['v2']) % 2],
                      prior=((row['v1'] + 3 * row['v2']) % 5 == 0), raw=(row['given'] in ('f', 'if') and (row['v1'] + row['v2']) % 3 == 0))
        o['nat'] = True
        out.append(o)
    return out


def _wide(args):
    seed, pid, count = args
    fx = common.import_fxpmath()
    import numpy as np
    rng = random.Random(seed)
    out = []
    for _ in range(count):
        n = rng.choice([1, 1, 2, 3, 5])
        f = rng.randint(0, 20)
        kb = rng.choice([1, 3, 8, 16, 31, 39, 40])
        vals = []
        for _ in range(n):
            c = rng.random()
            if c < 0.25:
                k = rng.choice([-1, 1]) * (1 << rng.randint(0, kb - 1))              # +-2^j
            elif c < 0.5:
                k = rng.choice([-1, 1]) * ((1 << rng.randint(1, kb)) - 1)            # 2^j - LSB
            else:
                k = rng.randint(-(1 << kb) + 1, (1 << kb) - 1)
            vals.append(F(k, 1 << rng.randint(0, f)))
        sa = rng.choice(['none', 'T', 'F'])
        if sa == 'F':
            vals = [abs(v) for v in vals]
        given = rng.choice(['none', 'none', 'w', 'f', 'if', 'iw'])
        sg = 0 if sa == 'F' else 1
        # arguments derived from the values' needs, plus/minus slack (the judge recomputes the needs itself)
        fneed = max((v.denominator.bit_length() - 1) for v in vals)
        ineed = max(0, max(int(abs(v)).bit_length() + (1 if (v == int(v) and v < 0 and (int(-v) & (int(-v) - 1)) == 0 and False) else 0) for v in vals))
        nw = nf = ni = NONE
        if given == 'w':
            nw = max(1, min(64, ineed + fneed + sg + rng.randint(-3, 3)))
        elif given == 'f':
            nf = fneed + rng.randint(0, 3)
        elif given == 'if':
            ni, nf = ineed + rng.randint(0, 2), fneed + rng.randint(0, 2)
        elif given == 'iw':
            ni = ineed + rng.randint(0, 2)
            nw = min(64, ni + sg + fneed + rng.randint(0, 2))
        carrier = 'scalar' if n == 1 else rng.choice(['list', 'ndarray', 'tuple'])
        out.append(obs_infer(fx, np, [pid], vals, sa, given, nw, nf, ni, 64, carrier=carrier, prior=rng.random() < 0.3, raw=(given in ('f', 'if') and rng.random() < 0.5)))
        # the same through narrow NumPy carriers, when every value is exactly representable in the dtype
        for nt in ('float32', 'float16', 'int32', 'int16', 'int8', 'uint8', 'uint16', 'uint32', 'uint64', 'int64', 'float64'):      # (unsigned dtypes too: the default signedness does not depend on the carrier)
            tp = getattr(np, nt)
            try:
                if np.issubdtype(tp, np.integer):
                    ok = all(v.denominator == 1 and np.iinfo(tp).min <= v.numerator <= np.iinfo(tp).max for v in vals)
                else:
                    ok = all(np.isfinite(tp(float(v))) and F(float(tp(float(v)))) == v for v in vals)
            except (OverflowError, ValueError):
                ok = False
            if ok and rng.random() < 0.5:
                out.append(obs_infer(fx, np, [pid], vals, sa, given, nw, nf, ni, 64, carrier='np.' + nt))
    # directed: powers of two in narrow float carriers; values just beyond a power of two with a word that is too short
    for _ in range(count // 2 + 1):
        k = rng.randint(0, 38)
        sgn = rng.choice([-1, 1])
        v = F(sgn * (1 << k))
        for nt in ('float32', 'float16', 'float64'):
            if nt == 'float16' and k > 15:
                continue
            out.append(obs_infer(fx, np, [pid], [v], 'none', 'none', NONE, NONE, NONE, 64, carrier='np.' + nt))
            out.append(obs_infer(fx, np, [pid], [v, F(1)], 'none', 'none', NONE, NONE, NONE, 64, carrier='np.' + nt))
        j = rng.randint(1, 20)
        k2 = rng.randint(0, 12)
        v2 = F(sgn) * (F(1 << k2) + F(1, 1 << j))
        sa = rng.choice(['none', 'T']) if sgn < 0 else rng.choice(['none', 'T', 'F'])
        for nw in {k2 + 1 + (0 if sa == 'F' else 1) + d for d in (0, 1, 2, 3, j // 2)}:
            if 1 <= nw <= 64:
                out.append(obs_infer(fx, np, [pid], [v2], sa, 'w', nw, NONE, NONE, 64, carrier='scalar'))
    # the capped case: random non-dyadic-looking doubles with the real cap 64
    for _ in range(count // 4 + 1):
        vals = [F(rng.uniform(-1000, 1000)) if rng.random() < 0.7 else F(rng.random() * 2 ** rng.randint(-30, 40)) for _ in range(rng.choice([1, 1, 3]))]
        sa = rng.choice(['none', 'T', 'F'])
        if sa == 'F':
            vals = [abs(v) for v in vals]
        out.append(obs_infer(fx, np, [pid], vals, sa, 'none', NONE, NONE, NONE, 64, carrier='scalar' if len(vals) == 1 else 'list',
                             extra={'capcase': True}))
        # arrays with a wide dynamic range: long fractions next to large integer parts (the capped format must keep the integer parts)
        wide = [F(rng.uniform(-8, 8)), F(rng.choice([-1, 1]) * rng.uniform(1, 2) * 2 ** rng.randint(8, 44))] + ([F(rng.uniform(0, 1) * 2 ** -rng.randint(1, 20))] if rng.random() < 0.5 else [])
        if sa == 'F':
            wide = [abs(v) for v in wide]
        rng.shuffle(wide)
        out.append(obs_infer(fx, np, [pid], wide, sa, 'none', NONE, NONE, NONE, 64, carrier='list', extra={'capcase': True}))
    return out


def run(chk):
    pid, tier = chk.pid, chk.tier
    rows, r = chk.model_check('MC_Best.tla', 'MC_Best_C06_%s.cfg' % tier, label='MC_Best', must_print=True)
    rows = [x for x in rows if x.get('k') == 'infer']
    chk.extra['small_world'] = {'configurations': len(rows), 'cap': 8}
    chk.exhaustive = True
    obs = []
    chunks = [rows[i::core.NPROC * 4] for i in range(core.NPROC * 4)]
    for part in core.parallel_map(_small, [(c, pid, tier) for c in chunks if c]):
        obs += part
    n = 1600 if tier == 'quick' else 40000
    for part in core.parallel_map(_wide, [(chk.seed * 1000 + i, pid, n // core.NPROC + 1) for i in range(core.NPROC)]):
        obs += part
    return obs
