"""C07 (optimal + - * exact), C08 (imposed formats), C09 (division family), C19 (64-bit boundary).

Direction A: MC_Arith enumerates every pair of small formats; for each pair every pair of codes is executed on
the real code (vectorised: one call per operator/route with all code pairs as arrays, plus scalar corner calls).
Direction B: seeded wide formats (result word <= 53 for C07/C09, <= 12-bit operands for C08, 2..70-bit operands and
up to 256-bit results for C19), extreme corners, near-extreme and random codes, random expression trees.
"""
import random, fractions, itertools
from .. import common, core, x_arith

F = fractions.Fraction
ROUND = ['trunc', 'fix', 'floor', 'ceil', 'around']
OVF = ['saturate', 'wrap']
MODES = [(r, o) for r in ROUND for o in OVF]


def rng_of(t):
    s, w, f = t
    return ((-(1 << (w - 1)), (1 << (w - 1)) - 1) if s else (0, (1 << w) - 1))


def T(d):
    return (d['s'], d['w'], d['f'])


def nint(t):
    return t[1] - t[2] - (1 if t[0] else 0)


def all_pairs(tx, ty):
    lx, hx = rng_of(tx)
    ly, hy = rng_of(ty)
    cxs, cys = [], []
    for a in range(lx, hx + 1):
        for b in range(ly, hy + 1):
            cxs.append(a)
            cys.append(b)
    return cxs, cys


def corners(t):
    lo, hi = rng_of(t)
    return sorted(set([lo, hi, lo + 1, hi - 1, 0, -1 if t[0] else 1, 1]) & set(range(lo, hi + 1)))


# ------------------------------------------------------------------ small world executors
def _small_c07(args):
    row, pid, tier, idx = args
    fx = common.import_fxpmath()
    import numpy as np
    tx, ty = T(row['x']), T(row['y'])
    cxs, cys = all_pairs(tx, ty)
    out = []
    routes = ['operator', 'function', 'numpy', 'iop']
    for j, op in enumerate(('add', 'sub', 'mul')):
        for r in (routes if tier == 'thorough' else [routes[(idx + j) % 4]]):
            out.append(x_arith.observe_arith(fx, np, [pid], op, tx, ty, cxs, cys, route=r))
        # a class-level template of the OTHER signedness is active while the operation runs: results are what they are without it
        sres = tx[0] or ty[0]
        out.append(x_arith.observe_arith(fx, np, [pid], op, tx, ty, cxs, cys, route=routes[(idx + j + 3) % 4],
                                         template=(not sres, 9 + idx % 5, idx % 4)))
        # repr method gives the same exact results
        out.append(x_arith.observe_arith(fx, np, [pid], op, tx, ty, cxs, cys, route='operator', method='repr'))
        if tx[2] <= 0 or ty[2] <= 0:      # ... also for operands built by value from Python integers (their reads are integer arrays)
            out.append(x_arith.observe_arith(fx, np, [pid], op, tx, ty, cxs, cys, route=['operator', 'function'][(idx + j) % 2], method=['repr', 'raw'][(idx // 2) % 2], dirty='intval'))
        # operands with a history (sticky overflow/underflow/inaccuracy flags already raised)
        out.append(x_arith.observe_arith(fx, np, [pid], op, tx, ty, cxs, cys, route=routes[(idx + j + 1) % 4], dirty=True))
        # operands that received their codes by in-place writes after having been used (anything cached about them is stale)
        out.append(x_arith.observe_arith(fx, np, [pid], op, tx, ty, cxs, cys, route=routes[(idx + j + 2) % 4], dirty=x_arith.HIST[(idx + j) % len(x_arith.HIST)]))
        out.append(x_arith.observe_arith(fx, np, [pid], op, tx, ty, [cxs[(idx * 7) % len(cxs)]], [cys[(idx * 7) % len(cys)]], scalar=True,
                                         dirty=x_arith.HIST[(idx + j + 1) % len(x_arith.HIST)]))
    # scalar corner calls (per-element flags) and broadcasting (scalar with array, 2-D with 1-D)
    for op in ('add', 'sub', 'mul'):
        for a in corners(tx)[:4]:
            for b in corners(ty)[:4]:
                if (a + b + idx) % 3 == 0 or tier == 'thorough':
                    out.append(x_arith.observe_arith(fx, np, [pid], op, tx, ty, [a], [b], scalar=True, dirty=('element' if (a + b + idx) % 2 else False)))
    if idx % 4 == 0 or tier == 'thorough':
        out += _broadcast(fx, np, pid, tx, ty)
    # EXTENSION beyond the property (extra conformance, never a verdict of C07): complex operands, every 4-tuple of component corners
    if idx % 6 == 0 and tx[1] >= 1 and ty[1] >= 1:
        cx_, cy_ = corners(tx)[:3], corners(ty)[:3]
        quads = [(a, b, c, d) for a in cx_ for b in cx_ for c in cy_ for d in cy_]
        for op in ('add', 'sub', 'mul'):
            out.append(x_arith.observe_carith(fx, np, [pid], op, tx, ty, [q[0] for q in quads], [q[1] for q in quads], [q[2] for q in quads],
                                              [q[3] for q in quads], route=['operator', 'function'][idx % 2]))
    return _tag(out)


def _broadcast(fx, np, pid, tx, ty):
    """array op scalar, (2,n) op (n,): the judge receives the broadcast operand codes"""
    out = []
    lx, hx = rng_of(tx)
    ly, hy = rng_of(ty)
    xs = list(range(lx, hx + 1))[:8]
    for op in ('add', 'sub', 'mul'):
        for b in (ly, hy):
            base = {'k': 'arith', 'p': [pid], 'op': op, 'x': dict(zip('swf', tx)), 'y': dict(zip('swf', ty)), 'sizing': 'optimal',
                    'method': 'raw', 'route': 'operator', 'xm': {'r': 'trunc', 'o': 'saturate'}, 'ym': {'r': 'trunc', 'o': 'saturate'},
                    'target': 'none', 'tf': {'s': False, 'w': 0, 'f': 0}, 'tm': {'r': 'trunc', 'o': 'saturate'}, 'agg': True,
                    'carrier': 'broadcast', 'dirty': False, 'opi': False}
            try:
                X = x_arith.mk(fx, np, tx, xs)
                Y = x_arith.mk(fx, np, ty, b)
                Zs = [('array-scalar', x_arith.apply(fx, np, op, X, Y, 'operator'), xs, [b] * len(xs)),
                      ('scalar-array', x_arith.apply(fx, np, op, Y, X, 'operator'), None, None)]
                if len(xs) >= 4:
                    X2 = x_arith.mk(fx, np, tx, xs[:4], shape=(2, 2))
                    Y2 = x_arith.mk(fx, np, ty, [ly, hy])
                    Zs.append(('2d-1d', x_arith.apply(fx, np, op, X2, Y2, 'operator'), xs[:4], [ly, hy, ly, hy]))
                # shapes in which the FIRST operand is the one that broadcasting expands (fewer dimensions, size-1 axes on either side)
                ys = [ly, hy, b, (ly + hy) // 2]
                for name, shx, shy in (('1d-2d', (2,), (2, 2)), ('col-row', (2, 1), (1, 2)), ('one-many', (1,), (4,)), ('3d', (2, 1, 2), (2, 1)),
                                       ('row-col', (1, 2), (2, 1))):
                    nx = int(np.prod(shx)); ny = int(np.prod(shy))
                    cxa = np.array((xs * 4)[:nx], dtype=object).reshape(shx)
                    cya = np.array((ys * 4)[:ny], dtype=object).reshape(shy)
                    Xb = x_arith.mk(fx, np, tx, (xs * 4)[:nx], shape=shx)
                    Yb = x_arith.mk(fx, np, ty, (ys * 4)[:ny], shape=shy)
                    bx, by = np.broadcast_arrays(cxa, cya)
                    Zs.append((name, x_arith.apply(fx, np, op, Xb, Yb, ['operator', 'function', 'numpy'][(nx + ny + len(op)) % 3]),
                               [int(c) for c in bx.ravel().tolist()], [int(c) for c in by.ravel().tolist()]))
                if tuple(tx) == tuple(ty):
                    # aliasing: the SAME object on both sides, and an operand next to an element / a view of itself
                    Xa = x_arith.mk(fx, np, tx, xs)
                    Zs.append(('same-object', x_arith.apply(fx, np, op, Xa, Xa, ['operator', 'function', 'numpy'][len(xs) % 3]), xs, xs))
                    Xe = x_arith.mk(fx, np, tx, xs)
                    Zs.append(('with-own-element', x_arith.apply(fx, np, op, Xe, Xe[len(xs) - 1], 'operator'), xs, [xs[-1]] * len(xs)))
                    Xv = x_arith.mk(fx, np, tx, xs)
                    Zs.append(('with-own-reversed-view', x_arith.apply(fx, np, op, Xv, Xv[::-1], 'operator'), xs, xs[::-1]))
                for name, Z, cx, cy in Zs:
                    if name == 'scalar-array':
                        row = dict(base, x=base['y'], y=base['x'], cx=[common.wint(b)] * len(xs), cy=[common.wint(c) for c in xs])
                    else:
                        row = dict(base, cx=[common.wint(c) for c in cx], cy=[common.wint(c) for c in cy])
                    fl = common.flags_of(Z)
                    cz = common.codes_of(Z)
                    out.append(dict(row, z=x_arith.fmt_of(Z), zm=x_arith.modes_of(Z), cz=[common.wint(c) for c in cz], fo=[fl['o']],
                                    fu=[fl['u']], fi=[fl['i']], same_obj=False, zshape=list(np.shape(Z.val)), v=[0] * len(cz), bcast=name))
            except Exception as ex:
                out.append(dict(base, k='error', err=type(ex).__name__, msg=str(ex)[:200]))
    return out


def _targets(tx, ty, idx):
    """a few out / out_like target formats per pair: narrower, wider, other signedness"""
    s = tx[0] or ty[0]
    fz = max(tx[2], ty[2])
    cands = [(True, 3, 1), (True, 4, 0), (s, 2 + int(s), 0), (True, 5, 3), (s, 6, 4), (False, 3, 1), (True, 8, 2)]
    out = []
    for k in range(2):
        t = cands[(idx + 3 * k) % len(cands)]
        if t[0] or not s:          # a signed result cannot be stored in an unsigned target (the code raises ValueError)
            out.append(t)
    return out


def _small_c08(args):
    row, pid, tier, idx = args
    fx = common.import_fxpmath()
    import numpy as np
    tx, ty = T(row['x']), T(row['y'])
    cxs, cys = all_pairs(tx, ty)
    out = []
    k = idx
    for op in ('add', 'sub', 'mul'):
        for pol in ('optimal', 'same', 'largest', 'smallest'):
            if pol != 'optimal':
                ni = {'same': nint(tx), 'largest': max(nint(tx), nint(ty)), 'smallest': min(nint(tx), nint(ty))}[pol]
                fz = {'same': tx[2], 'largest': max(tx[2], ty[2]), 'smallest': min(tx[2], ty[2])}[pol]
                if ni + fz + int(tx[0] or ty[0]) < 1:
                    continue
            for m in (MODES if tier == 'thorough' else [MODES[(k + j) % 10] for j in (0, 3, 7)]):
                k += 1
                for method in ('raw', 'repr'):
                    route = ['operator', 'function', 'iop', 'function'][k % 4]
                    out.append(x_arith.observe_arith(fx, np, [pid], op, tx, ty, cxs, cys, route=route, sizing=pol, method=method,
                                                     xmodes=m, ymodes=MODES[(k + 5) % 10], dirty=('intval' if (k % 3 == 0 and (tx[2] <= 0 or ty[2] <= 0)) else False)))
        if tx[2] <= 0 and ty[2] <= 0:
            # scalar operands that are ELEMENTS of arrays built by value from integers (their codes are NumPy integer scalars)
            lx_, hx_ = rng_of(tx); ly_, hy_ = rng_of(ty)
            for (a_, b_) in ((lx_, hy_), (hx_, ly_), (lx_, ly_), (hx_, hy_)):
                for method in ('raw', 'repr'):
                    k += 1
                    out.append(x_arith.observe_arith(fx, np, [pid], op, tx, ty, [a_], [b_], route=['operator', 'function'][k % 2], sizing=('same' if (k % 2 and nint(tx) + tx[2] + int(tx[0] or ty[0]) >= 1) else 'optimal'),
                                                     method=method, xmodes=MODES[k % 10], ymodes=MODES[(k + 5) % 10], scalar=True, dirty='intval-element'))
        for tf in _targets(tx, ty, idx):
            for target in ('out', 'out_like'):
                for m in (MODES if tier == 'thorough' else [MODES[(k + j) % 10] for j in (1, 6)]):
                    k += 1
                    meth = 'raw' if k % 3 else 'repr'
                    rt = ['operator', 'function', 'iop', 'numpy'][k % 4]
                    if rt == 'numpy' and (target != 'out' or meth != 'raw'):
                        rt = 'function'
                    out.append(x_arith.observe_arith(fx, np, [pid], op, tx, ty, cxs, cys, route=rt,
                                                     sizing='optimal', method=meth, xmodes=MODES[(k + 3) % 10],
                                                     ymodes=MODES[(k + 4) % 10], target=target, tfmt=tf, tmodes=m))
    # constants on either side
    lx, hx = rng_of(tx)
    xs = list(range(lx, hx + 1))
    consts = [F(1), F(-1), F(3, 2), F(-5, 4), F(1, 4), F(7, 8), F(2), F(-3), F(0), F(5, 8), F(-1, 2), F(11, 4)]
    for op in ('add', 'sub', 'mul'):
        for side in ('right', 'left', 'inplace'):
            for ois in ('same', 'best'):
                for cs in ('same', 'optimal', 'largest', 'smallest'):
                    k += 1
                    if tier != 'thorough' and k % 3:
                        continue
                    c = consts[k % len(consts)]
                    out.append(x_arith.observe_const(fx, np, [pid], op, tx, xs, c, side, ois, cs, MODES[k % 10],
                                                     method='raw' if k % 2 else 'repr', history=(k % 4 == 1)))
    for j, op in enumerate(('neg', 'pos', 'abs')):
        out.append(x_arith.observe_unary(fx, np, [pid], op, tx, xs, MODES[(idx) % 10], ois=['same', 'best'][(idx + j) % 2]))
    return _tag(out)


def _small_c09(args):
    row, pid, tier, idx = args
    fx = common.import_fxpmath()
    import numpy as np
    tx, ty = T(row['x']), T(row['y'])
    cxs, cys = all_pairs(tx, ty)
    keep = [i for i in range(len(cxs)) if cys[i] != 0]
    cxs, cys = [cxs[i] for i in keep], [cys[i] for i in keep]
    out = []
    if not cxs:
        return out
    for r in ('trunc', 'around', 'floor'):
        for method in ('raw', 'repr'):
            out.append(x_arith.observe_div(fx, np, [pid], tx, ty, cxs, cys, method=method, rnd=r,
                                           route=['operator', 'function', 'numpy', 'iop'][(idx + len(out)) % 4]))
    out.append(x_arith.observe_div(fx, np, [pid], tx, ty, cxs, cys, method=['raw', 'repr'][idx % 2], rnd='trunc',
                                   hist=x_arith.HIST[idx % len(x_arith.HIST)]))
    lo, hi = rng_of(tx)
    ly, hy = rng_of(ty)
    # divisor arrays of ONE class only: positive powers of two (not all equal), negative values only, one repeated value
    xs_all = list(range(lo, hi + 1))
    pows = [1 << j for j in range(0, 8) if (1 << j) <= hy]
    classes = [pows, [c for c in range(ly, 0)], [hy], [-(1 << j) for j in range(0, 8) if -(1 << j) >= ly]]
    for cl in classes:
        cl = [c for c in cl if c != 0 and ly <= c <= hy]            # (non-zero divisors of the format)
        if len(cl) >= 1:
            dv = [cl[i % len(cl)] for i in range(len(xs_all))]
            for method in ('raw', 'repr'):
                out.append(x_arith.observe_div(fx, np, [pid], tx, ty, xs_all, dv, method=method, rnd=['trunc', 'around', 'floor'][(idx + len(out)) % 3],
                                               route=['operator', 'function', 'numpy'][(idx + len(out)) % 3]))
    for a in sorted({lo, hi}):
        for b in sorted({ly, hy, 1, -1 if ty[0] else 1} - {0}):
            if ly <= b <= hy:
                out.append(x_arith.observe_div(fx, np, [pid], tx, ty, [a], [b], scalar=True))
    return _tag(out)


def _tag(rows):
    rows = [r for r in rows if r is not None]
    for r in rows:
        r['nat'] = True
    return rows


# ------------------------------------------------------------------ wide world
def _rand_fmt(rng, wmax, fmin=-1, fext=1, nonneg_int=False):
    s = rng.random() < 0.5
    w = rng.randint(1 if not s else 1, wmax)
    if nonneg_int:
        w = max(w, 2)
        f = rng.randint(0, w - int(s))
    else:
        f = rng.randint(fmin, w + fext)
    return (s, w, f)


def _codes(rng, t, n):
    lo, hi = rng_of(t)
    c = [lo, hi, lo + 1, hi - 1, 0, 1, -1, hi // 2, lo // 2, (hi >> 1) + 1]
    c += [rng.randint(lo, hi) for _ in range(n)]
    c = [min(hi, max(lo, v)) for v in c]
    return c


def _wide_c07(args):
    seed, pid, count = args
    fx = common.import_fxpmath()
    import numpy as np
    rng = random.Random(seed)
    out = []
    for _ in range(count):
        tx = _rand_fmt(rng, 40)
        ty = _rand_fmt(rng, 40)
        for op in ('add', 'sub', 'mul'):
            gw = _grow_word(op, tx, ty)
            if gw > 53 or gw < 1:
                continue
            a, b = _codes(rng, tx, 6), _codes(rng, ty, 6)
            cxs = [x for x in a for _ in b]
            cys = [y for _ in a for y in b]
            out.append(x_arith.observe_arith(fx, np, [pid], op, tx, ty, cxs, cys, route=rng.choice(['operator', 'function', 'numpy', 'iop']),
                                             method=rng.choice(['raw', 'raw', 'repr'])))
            out.append(x_arith.observe_arith(fx, np, [pid], op, tx, ty, [rng.choice(a)], [rng.choice(b)], scalar=True,
                                             dirty=rng.choice([False, True, 'inplace', 'resign'])))
            out.append(x_arith.observe_arith(fx, np, [pid], op, tx, ty, cxs, cys, dirty=rng.choice(x_arith.HIST)))
        # random expression tree of depth <= 4 over + - * : every node is one judged row
        pool = [(tx, rng.choice(_codes(rng, tx, 2))), (ty, rng.choice(_codes(rng, ty, 2)))]
        for _ in range(rng.randint(2, 6)):
            (t1, c1), (t2, c2) = rng.choice(pool), rng.choice(pool)
            op = rng.choice(['add', 'sub', 'mul'])
            gw = _grow_word(op, t1, t2)
            if gw > 53:
                continue
            row = x_arith.observe_arith(fx, np, [pid], op, t1, t2, [c1], [c2], scalar=True, extra={'tree': True})
            out.append(row)
            if row.get('k') == 'arith':
                z = row['z']
                pool.append(((z['s'], z['w'], z['f']), common.unwint(row['cz'][0])))
    return [r for r in out if r is not None]


def _grow_word(op, tx, ty):
    s = tx[0] or ty[0]
    if op == 'mul':
        return tx[1] + ty[1]
    return max(nint(tx), nint(ty)) + 1 + max(tx[2], ty[2]) + int(s)


def _wide_c08(args):
    seed, pid, count = args
    fx = common.import_fxpmath()
    import numpy as np
    rng = random.Random(seed)
    out = []
    for _ in range(count):
        tx = _rand_fmt(rng, 12, nonneg_int=True)
        ty = _rand_fmt(rng, 12, nonneg_int=True)
        a, b = _codes(rng, tx, 5), _codes(rng, ty, 5)
        cxs = [x for x in a for _ in b]
        cys = [y for _ in a for y in b]
        op = rng.choice(['add', 'sub', 'mul'])
        pol = rng.choice(['optimal', 'same', 'largest', 'smallest'])
        m1, m2, m3 = rng.choice(MODES), rng.choice(MODES), rng.choice(MODES)
        out.append(x_arith.observe_arith(fx, np, [pid], op, tx, ty, cxs, cys, route=rng.choice(['operator', 'function']), sizing=pol,
                                         method=rng.choice(['raw', 'repr']), xmodes=m1, ymodes=m2))
        tf = _rand_fmt(rng, 12, nonneg_int=True)
        if tf[0] or not (tx[0] or ty[0]):
            out.append(x_arith.observe_arith(fx, np, [pid], op, tx, ty, cxs, cys, route=rng.choice(['operator', 'function']),
                                             method=rng.choice(['raw', 'repr']), xmodes=m1, ymodes=m2,
                                             target=rng.choice(['out', 'out_like']), tfmt=tf, tmodes=m3))
        c = F(rng.randint(-64, 64), 1 << rng.randint(0, 5))
        out.append(x_arith.observe_const(fx, np, [pid], op, tx, a, c, rng.choice(['left', 'right']), rng.choice(['same', 'best']),
                                         rng.choice(['same', 'optimal', 'largest', 'smallest']), m1, method=rng.choice(['raw', 'repr']),
                                         history=rng.random() < 0.4))
        # constants carried by NumPy scalars of narrow types (right-hand side, in-place): integer constants whose scaled value
        # c * 2^n_frac leaves the range of the carrier type
        nt = rng.choice(['int8', 'uint8', 'int16', 'uint16', 'int32', 'float16', 'float32', 'int64'])
        cint = F(rng.choice([1, 2, 3, -1, -2, 5, 100, 127, -128, 200, 255, rng.randint(-40, 40)]))
        out.append(x_arith.observe_const(fx, np, [pid], op, tx, a, cint, rng.choice(['right', 'inplace']), rng.choice(['same', 'same', 'best']),
                                         rng.choice(['same', 'optimal', 'largest', 'smallest']), m1, method=rng.choice(['raw', 'repr']), ctype=nt))
        out.append(x_arith.observe_unary(fx, np, [pid], rng.choice(['neg', 'pos', 'abs']), tx, a, m1, ois=rng.choice(['same', 'best'])))
    return [r for r in out if r is not None]


def _wide_c09(args):
    seed, pid, count = args
    fx = common.import_fxpmath()
    import numpy as np
    rng = random.Random(seed)
    out = []
    for _ in range(count):
        tx = _rand_fmt(rng, 24, fmin=0, fext=0)
        ty = _rand_fmt(rng, 24, fmin=0, fext=0)
        s = tx[0] or ty[0]
        tw = int(s) + (nint(tx) + ty[2] + int(s)) + (tx[2] + nint(ty))
        if tw > 53 or tw < 1 or (nint(tx) + ty[2] + int(s)) < 0:
            continue
        a, b = _codes(rng, tx, 5), [c for c in _codes(rng, ty, 5) if c != 0]
        if not b:
            continue
        cxs = [x for x in a for _ in b]
        cys = [y for _ in a for y in b]
        out.append(x_arith.observe_div(fx, np, [pid], tx, ty, cxs, cys, method=rng.choice(['raw', 'repr']),
                                       rnd=rng.choice(['trunc', 'around', 'floor']), route=rng.choice(['operator', 'function', 'numpy', 'iop']),
                                       hist=rng.choice([None, None] + x_arith.HIST)))
    return [r for r in out if r is not None]


SMALL = {'C07': _small_c07, 'C08': _small_c08, 'C09': _small_c09}
WIDE = {'C07': _wide_c07, 'C08': _wide_c08, 'C09': _wide_c09}


def run(chk):
    pid, tier = chk.pid, chk.tier
    rows, r = chk.model_check('MC_Arith.tla', 'MC_Arith_%s_%s.cfg' % (pid, tier), label='MC_Arith', must_print=True)
    rows = [x for x in rows if x.get('k') == 'arith']
    chk.extra['small_world'] = {'format_pairs': len(rows)}
    chk.exhaustive = True
    n = 480 if tier == 'quick' else 8000
    per = max(1, n // (core.NPROC * (1 if tier == 'quick' else 8)))
    wide = [(chk.seed * 1000 + i, pid, per) for i in range(n // per)]
    from .. import suite
    extra = suite.suite_rows(pid, chk) if (tier == 'thorough' and pid in ('C07', 'C08')) else None
    return core.stream(SMALL[pid], [(row, pid, tier, i) for i, row in enumerate(rows)], WIDE[pid], wide, tier, step={'C07': 40, 'C08': 8, 'C09': 60}[pid], extra=extra)
