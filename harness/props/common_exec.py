"""small executors shared by several property modules"""
from .. import common
from ..common import wint, wdy

NONE = -99


def obs_infer(fx, np, props, vals, sa, given, nw, nf, ni, cap, carrier='scalar', extra=None, prior=False, raw=False):
    """Fxp(values, signed=?, n_word=?, n_frac=?, n_int=?, n_word_max=cap); vals are exact Fractions"""
    base = {'k': 'infer', 'p': list(props), 'sa': sa, 'given': given, 'nw': nw, 'nf': nf, 'ni': ni, 'cap': cap, 'carrier': carrier,
            'route': 'ctor', 'v': [wdy(v) for v in vals], 'capcase': False}
    if extra:
        base.update(extra)
    try:
        nums = [int(v) if v.denominator == 1 else float(v) for v in vals]
        if carrier.startswith('np.'):            # NumPy scalar / array of a narrow dtype (values exactly representable there)
            tp = getattr(np, carrier.split('.')[1])
            obj = tp(nums[0]) if len(nums) == 1 else np.array(nums, dtype=tp)
        elif carrier == 'scalar':
            obj = nums[0]
        elif carrier == 'ndarray':
            obj = np.array([float(v) for v in vals])
        elif carrier == 'tuple':
            obj = tuple(nums)
        else:
            obj = list(nums)
        kw = {}
        if raw and nf != NONE and nf >= 0 and not carrier.startswith('np.') and all((v * 2 ** nf).denominator == 1 for v in vals):
            # the values are given as CODES with raw=True (n_frac is known): the inferred word is the same
            codes = [int(v * 2 ** nf) for v in vals]
            obj = codes[0] if carrier == 'scalar' else (np.array(codes) if carrier == 'ndarray' else (tuple(codes) if carrier == 'tuple' else codes))
            kw['raw'] = True
            base['route'] = 'ctor/raw'
        if sa != 'none':
            kw['signed'] = (sa == 'T') if (len(vals) + (nw if nw != NONE else 0) + (nf if nf != NONE else 0)) % 2 else int(sa == 'T')     # True/False or 1/0
        if nw != NONE: kw['n_word'] = nw
        if nf != NONE: kw['n_frac'] = nf
        if ni != NONE: kw['n_int'] = ni
        if prior:
            # history across objects: the same values were sized before under a coarse configuration (whatever the library may
            # remember globally about them must not leak into this construction)
            try:
                fx.Fxp(obj, max_error=1.0e-2, n_word_max=6)
                fx.Fxp(obj, max_error=0.3)
            except Exception:
                pass
        x = fx.Fxp(obj, n_word_max=cap, **kw)
        fl = common.flags_of(x)
        return dict(base, z=common.fmt_dict(x), c=[wint(c) for c in common.codes_of(x)], fo=[fl['o']], fu=[fl['u']], fi=[fl['i']])
    except Exception as ex:
        return dict(base, k='error', err=type(ex).__name__, msg=str(ex)[:200])
