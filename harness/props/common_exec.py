"""small executors shared by several property modules"""
from .. import common
from ..common import wint, wdy

NONE = -99


def obs_infer(fx, np, props, vals, sa, given, nw, nf, ni, cap, carrier='scalar', extra=None, prior=False):
    """Fxp(values, signed=?, n_word=?, n_frac=?, n_int=?, n_word_max=cap); vals are exact Fractions"""
    base = {'k': 'infer', 'p': list(props), 'sa': sa, 'given': given, 'nw': nw, 'nf': nf, 'ni': ni, 'cap': cap, 'carrier': carrier,
            'route': 'ctor', 'v': [wdy(v) for v in vals], 'capcase': False}
    if extra:
        base.update(extra)
    try:
        nums = [int(v) if v.denominator == 1 else float(v) for v in vals]
        if carrier.startswith('np.'):            # NumPy scalar / array of a narrow dtype (values exactly representable there)
            tp = getattr(np, carrier.split('.')[1])
            obj = tp(nums[0]) if len(nums) == 1 else np.array(nums, dtype=tp)
        elif carrier == 'scalar':
            obj = nums[0]
        elif carrier == 'ndarray':
            obj = np.array([float(v) for v in vals])
        elif carrier == 'tuple':
            obj = tuple(nums)
        else:
            obj = list(nums)
        kw = {}
        if sa != 'none':
            kw['signed'] = (sa == 'T')
        if nw != NONE: kw['n_word'] = nw
        if nf != NONE: kw['n_frac'] = nf
        if ni != NONE: kw['n_int'] = ni
        if prior:
            # history across objects: the same values were sized before under a coarse configuration (whatever the library may
            # remember globally about them must not leak into this construction)
            try:
                fx.Fxp(obj, max_error=1.0e-2, n_word_max=6)
                fx.Fxp(obj, max_error=0.3)
            except Exception:
                pass
        x = fx.Fxp(obj, n_word_max=cap, **kw)
        fl = common.flags_of(x)
        return dict(base, z=common.fmt_dict(x), c=[wint(c) for c in common.codes_of(x)], fo=[fl['o']], fu=[fl['u']], fi=[fl['i']])
    except Exception as ex:
        return dict(base, k='error', err=type(ex).__name__, msg=str(ex)[:200])
