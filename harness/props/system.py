"""C02 (every produced object is well formed), C04 (flags and callbacks exact and sticky), C20 (independence, views, inputs not
mutated, invalid config rejected): decided on HISTORIES with the heap model FxpSystem.

Direction A: MC_System explores every history of the small-scope instance to a depth bound, checking the invariants and action
properties, and prints one behaviour per transition (a complete transition cover); every behaviour is executed on real objects
and the projection of EVERY object after EVERY call is validated by FxpTrace against Step().
Direction A': longer behaviours from TLC -simulate of the same specification.
"""
import os, json, random
from .. import common, core, tlc, x_system


def _exec(args):
    behs, variant = args
    fx = common.import_fxpmath()
    import numpy as np
    out = []
    for bid, h in behs:
        out += x_system.run_behaviour(fx, np, bid, h, variant)
    return out


def _acts_of_cfg(cfg):
    """the action kinds an instance enables (Acts <- ActsXxx in the cfg, the set in MC_System.tla), as the names that occur in behaviours"""
    import re
    txt = open(os.path.join(common.MC, cfg)).read()
    m = re.search(r'Acts\s*<-\s*(\w+)', txt)
    src = open(os.path.join(common.MC, 'MC_System.tla')).read()
    defs = {k: v for k, v in re.findall(r'^(Acts\w+)\s*==\s*(.+)$', src, re.M)}

    def expand(expr):
        names = set(re.findall(r'"(\w+)"', expr.split('\\ {')[0] if '\\ {' in expr else expr))
        for ref in re.findall(r'\b(Acts\w+)\b', expr):
            names |= expand(defs[ref])
        for minus in re.findall(r'\\ \{([^}]*)\}', expr):
            names -= set(re.findall(r'"(\w+)"', minus))
        return names
    names = expand(defs[m.group(1)])
    return {{'New1': 'New', 'BinOpSub': 'BinOp'}.get(n, n) for n in names}


def vacuity_guard(chk, cfg, behs, label):
    """every action kind the instance enables must occur in its transition cover (an action never taken means the properties about
    it were never exercised): machinery failure otherwise; the counts go into the evidence"""
    from collections import Counter
    cnt = Counter(a['act'] for h in behs for a in h[-1:])          # the LAST action of each behaviour = the transition it covers
    want = _acts_of_cfg(cfg)
    chk.extra.setdefault('action_cover', {})[label] = dict(sorted(cnt.items()))
    missing = sorted(want - set(cnt))
    if missing:
        raise core.Machinery('instance %s never takes action(s) %s' % (cfg, missing))


def behaviours_from(printed):
    seen, out = set(), []
    for p in printed:
        if isinstance(p, dict) and p.get('k') == 'beh':
            key = json.dumps(p['h'], sort_keys=True)
            if key not in seen:
                seen.add(key)
                out.append(p['h'])
    return out


def simulate(chk, cfg, num, depth, seed):
    for attempt in range(3):
        r = tlc.run('MC_System.tla', cfg, workers=1, simulate='num=%d' % num, depth=depth, seed=seed, timeout=900)
        if r.violated:
            raise core.Machinery('simulation of %s: %s violated' % (cfg, r.violated))
        behs = behaviours_from(r.printed)
        if behs:
            break
    if not behs:
        # (seen once under heavy machine load) the simulated behaviours are an ADDITION to the transition cover: go on without them,
        # and say so in the evidence
        chk.subruns.append(dict(r.summary(), label='simulate ' + cfg + ' (no behaviours obtained in 3 attempts: %s)' % (r.error or 'nothing printed'), kind='simulation', behaviours=0))
        return []
    # in simulation mode TLC also evaluates the emitting invariant on candidate successors it does not take; every printed
    # history is a behaviour of the specification all the same.  Keep the longest ones, and a seeded sample of those.
    behs = sorted(_maximal(behs), key=lambda h: (-len(h), json.dumps(h, sort_keys=True)))
    rng = random.Random(seed)
    keep = max(num, 50)
    long_ = behs[:4 * keep]
    rng.shuffle(long_)
    behs = long_[:keep]
    chk.subruns.append(dict(r.summary(), label='simulate ' + cfg, kind='simulation', behaviours=len(behs),
                            mean_length=round(sum(len(h) for h in behs) / max(1, len(behs)), 1)))
    return behs


def _c02_sat(args):
    """C02: under saturate an out-of-range input of ANY magnitude is stored as the bound on its own side (n_frac >= 0):
    floats up to the largest double and Python integers of any size, through scalar and container carriers and every route."""
    seed, count = args
    import fractions
    from .. import x_store
    F = fractions.Fraction
    fx = common.import_fxpmath()
    import numpy as np
    rng = random.Random(seed)
    out = []
    fmax = float(np.finfo(float).max)
    for _ in range(count):
        s = rng.random() < 0.5
        w = rng.choice([1, 2, 8, 16, 31, 32, 33, 52, rng.randint(1, 52)])
        f = rng.choice([0, 1, w // 2, w, w + 8, rng.randint(0, w + 8)])
        r = rng.choice(['trunc', 'fix', 'floor', 'ceil', 'around'])
        mags = [2.0 ** 62, 2.0 ** 63, 2.0 ** 63 * 1.5, 2.0 ** 64, 2.0 ** 64 * 1.25, 1e19, 1e20, 1e30, 1e300, fmax, 2.0 ** (63 - min(f, 60)), 2.0 ** (64 - min(f, 60))]
        floats = [F(m * sg) for m in mags for sg in (1, -1)]
        rng.shuffle(floats)
        route = rng.choice(['ctor', 'call', 'set_val', 'setitem', 'call-reset'])
        out.append(x_store.observe(fx, np, (s, w, f), (r, 'saturate'), floats[:8], rng.choice(['pyfloat', 'np.float64', '0d-f64']), route, ['C02'], False))
        ar = rng.choice(['ctor', 'call', 'set_val', 'setitem-slice'])
        out.append(x_store.observe(fx, np, (s, w, f), (r, 'saturate'), floats[8:16], rng.choice(['ndarray-f64', 'list', 'tuple']), ar, ['C02'], True))
        out.append(x_store.observe(fx, np, (s, w, f), (r, 'saturate'), [floats[16], F(0)] if len(floats) > 16 else floats[:2], 'list', ar, ['C02'], True))
        ints = [F(sg * (1 << b) + rng.randint(-3, 3)) for b in (62, 63, 64, 65, 100, 1000) for sg in (1, -1)]
        out.append(x_store.observe(fx, np, (s, w, f), (r, 'saturate'), ints, 'pyint', route, ['C02'], False))
    return [o for o in out if o is not None]


def _c02_program(args):
    seeds, steps = args
    from .. import x_program
    fx = common.import_fxpmath()
    import numpy as np
    return [x_program.run_program(fx, np, sd, steps) for sd in seeds]


def _c20_chain(args):
    """x[i][j] = v on 2-D objects (and x[i][a:b][k] = v, x[:, j][i] = v): the literal chained indexed assignment of C20"""
    seed, count = args
    import fractions
    F = fractions.Fraction
    from ..common import wint, wdy
    fx = common.import_fxpmath()
    import numpy as np
    rng = random.Random(seed)
    out = []
    for _ in range(count):
        s = rng.random() < 0.5
        w = rng.randint(2, 12)
        f = rng.randint(0, w)
        lo, hi = ((-(1 << (w - 1)), (1 << (w - 1)) - 1) if s else (0, (1 << w) - 1))
        r, o = rng.choice(['trunc', 'fix', 'floor', 'ceil', 'around']), rng.choice(['saturate', 'wrap'])
        rows_, cols = rng.choice([(2, 2), (2, 3), (3, 2), (3, 3)])
        codes = [rng.randint(lo, hi) for _ in range(rows_ * cols)]
        k4 = rng.choice([4 * lo, 4 * hi, 4 * hi + 6, 4 * lo - 5, 2, 4 * rng.randint(lo, hi), 4 * rng.randint(lo, hi) + rng.randint(0, 3)])
        v = F(k4, 4) / F(2) ** f
        i, j = rng.randrange(rows_), rng.randrange(cols)
        how = rng.choice(['x[i][j]', 'x[i][j:j+1][0]', 'x[:, j][i]', 'x[::-1][i][j]', 'x.T[j][i]' if False else 'x[i][j]'])
        row = {'k': 'chain', 'p': ['C20'], 's': s, 'w': w, 'f': f, 'r': r, 'o': o, 'route': how, 'carrier': 'array2d', 'v': wdy(v)}
        try:
            cplx = rng.random() < 0.3
            if cplx:           # a complex 2-D object: the REAL components are what the row reports (the written value is real)
                a = (np.array(codes, dtype=float) + 1j * np.array([(c * 7 + 3) % (hi - lo + 1) + lo for c in codes], dtype=float)).reshape(rows_, cols)
                row['carrier'] = 'array2d-complex'
            else:
                a = np.array(codes, dtype=np.int64 if s else np.uint64).reshape(rows_, cols)
            x = fx.Fxp(a, s, w, f, raw=True, rounding=r, overflow=o)
            before = [int(c.real) for c in x.val.ravel().tolist()]
            fv = float(v)
            if how == 'x[i][j]':
                x[i][j] = fv
            elif how == 'x[i][j:j+1][0]':
                x[i][j:j + 1][0] = fv
            elif how == 'x[:, j][i]':
                x[:, j][i] = fv
            else:
                x[::-1][rows_ - 1 - i][j] = fv
            after = [int(c.real) for c in x.val.ravel().tolist()]
            out.append(dict(row, before=[wint(c) for c in before], after=[wint(c) for c in after], pos=i * cols + j + 1))
        except Exception as ex:
            out.append(dict(row, k='error', err=type(ex).__name__, msg=str(ex)[:200]))
    return out


def _c20_indep(args):
    """independence of the results of every deriving route (operators, functions, NumPy-dispatched functions and their method forms):
    two results of the same call on the same operand, one of them mutated, then the operand mutated"""
    seed, count = args
    from .. import x_misc
    fx = common.import_fxpmath()
    import numpy as np
    rng = random.Random(seed)
    out = []
    for _ in range(count):
        s = rng.random() < 0.6
        w = rng.randint(4, 12)
        f = rng.randint(0, w)
        lo, hi = ((-(1 << (w - 1)), (1 << (w - 1)) - 1) if s else (0, (1 << w) - 1))
        codes = [rng.choice([lo, hi, 1, 3, rng.randint(lo, hi)]) for _ in range(4)]
        for fn in rng.sample(x_misc.INDEP_FNS, 8):
            out.append(x_misc.observe_indep(fx, np, fn, (s, w, f), codes, rng.random() < 0.4))
    return [o for o in out if o is not None]


def run(chk):
    pid, tier = chk.pid, chk.tier
    # thorough tier: TLC checks the whole (larger) instance; of its transition cover a deterministic sample of at most 300 000
    # behaviours is replayed on the real objects (the quick tier replays the complete cover of its instance)
    rows, r = chk.model_check('MC_System.tla', 'MC_System_%s_%s.cfg' % (pid, tier), label='MC_System', heap='12g', timeout=3000,
                              sample_target=(300000 if tier == 'thorough' else None), seed=None, keep_out=False)
    behs = behaviours_from(r.printed)
    if tier == 'quick':
        vacuity_guard(chk, 'MC_System_%s_%s.cfg' % (pid, tier), behs, 'main instance')
    chk.extra['model'] = {'distinct_states': r.distinct, 'transitions': r.generated, 'behaviours_in_cover': getattr(r, 'printed_total', len(behs)),
                          'cover_sample': '1/%d' % getattr(r, 'sample_mod', 1)}
    r.printed = []
    # the negative instance must be REJECTED by TLC (an invariant that never fails is no evidence)
    if pid == 'C20':
        rn = tlc.run('MC_System.tla', 'MC_System_C20_neg.cfg')
        chk.subruns.append(dict(rn.summary(), label='negative instance: like() as a shallow copy', kind='model-check (must fail)'))
        if not rn.violated:
            raise core.Machinery('the negative instance (shallow like) was not rejected by TLC')
    # keep maximal behaviours only: a behaviour that is a proper prefix of another one is replayed as part of it
    full = _maximal(behs)
    if tier == 'quick' and len(full) > 45000:
        # (quick tier: a seeded stride sample of at most ~45 000 behaviours of the cover; TLC has checked all of it, the thorough tier replays more)
        k = -(-len(full) // 45000)
        full = sorted(full, key=lambda h: json.dumps(h, sort_keys=True))[chk.seed % k::k]
        chk.extra['model']['quick_replay_stride'] = k
    chk.extra['model']['maximal_behaviours_replayed'] = len(full)
    sim = simulate(chk, 'MC_System_%s_sim.cfg' % pid, 120 if tier == 'quick' else 4000, 9, chk.seed)
    # the EXTENSION instance: the rest of the deriving operations C20 lists (bitwise operators and masks, expanding shifts, NumPy
    # reductions, constants, in-place operators, raw stores, subtraction) with the mutations that expose sharing.  TLC checks the
    # action properties on it (ShiftExact, ReduceExact, BitKeepsFormat, IOpRebinds, NonInterference, Sticky, FlagIff ...); its
    # transition cover is replayed like the main one (thorough: all of it; quick: a seeded slice)
    _, rx = chk.model_check('MC_System.tla', 'MC_System_X_%s.cfg' % tier, label='MC_System (extension instance)', heap='12g', timeout=3000,
                            sample_target=(150000 if tier == 'thorough' else None), seed=None, keep_out=False)
    bx_all = behaviours_from(rx.printed)
    if tier == 'quick':
        vacuity_guard(chk, 'MC_System_X_%s.cfg' % tier, bx_all, 'extension instance')
    behx = _maximal(bx_all)
    rx.printed = []
    if tier == 'quick':
        # (a seeded slice of the cover per run: a tenth for C20, a twentieth for C02 / C04; the thorough tier replays all of it)
        k = 10 if pid == 'C20' else 20
        behx = sorted(behx, key=lambda h: json.dumps(h, sort_keys=True))[chk.seed % k::k]
    chk.extra['model']['extension_instance'] = {'distinct_states': rx.distinct, 'transitions': rx.generated, 'maximal_behaviours_replayed': len(behx)}
    simx = simulate(chk, 'MC_System_X_sim.cfg', 60 if tier == 'quick' else 2000, 9, chk.seed + 1)
    allb = full + sim + behx + simx
    indexed = list(enumerate(allb, 1))
    chk.exhaustive = True
    flagrows = []
    stream_after = None
    if pid == 'C04':
        # the flag iff of every single write, through every carrier and route of the store world (FlagIff of MC_Store)
        from . import store
        srows, _ = chk.model_check('MC_Store.tla', 'MC_Store_C01_quick.cfg', label='MC_Store (FlagIff, small world)', must_print=True)
        srows = [x for x in srows if x.get('k') == 'store']
        sel = srows if tier == 'thorough' else srows[chk.seed % 3::3]
        sjobs = [(row, 'C04', tier, i) for i, row in enumerate(sel)]
        wjobs = [(chk.seed * 1000 + i, 'C04', (320 if tier == 'quick' else 4000) // core.NPROC + 1) for i in range(core.NPROC)]
        if tier == 'quick':
            for part in core.parallel_map(store._exec_small, sjobs, chunksize=4):
                flagrows += part
            for part in core.parallel_map(store._exec_wide, wjobs):
                flagrows += part
        else:
            stream_after = core.stream(store._exec_small, sjobs, store._exec_wide, wjobs, tier, step=40)     # (a generator: bounded memory)
    if pid == 'C20':
        n = 640 if tier == 'quick' else 20000
        for part in core.parallel_map(_c20_chain, [(chk.seed * 1000 + i, n // core.NPROC + 1) for i in range(core.NPROC)]):
            flagrows += part
        ni = 160 if tier == 'quick' else 4000
        for part in core.parallel_map(_c20_indep, [(chk.seed * 1000 + 500 + i, ni // core.NPROC + 1) for i in range(core.NPROC)]):
            flagrows += part
    if pid == 'C02':
        # direction B: seeded random programs of public operations on core-domain formats; every returned object is judged as it reports itself
        nprog = 160 if tier == 'quick' else 6000
        seeds = [chk.seed * 100000 + i for i in range(nprog)]
        for part in core.parallel_map(_c02_program, [(seeds[i::core.NPROC], 60) for i in range(core.NPROC)]):
            flagrows += part
    sat = []
    if pid == 'C02':
        n = 320 if tier == 'quick' else 8000
        sat = [(chk.seed * 1000 + i, n // core.NPROC + 1) for i in range(core.NPROC)]
    if tier == 'quick':
        chunks = [indexed[i::core.NPROC * 2] for i in range(core.NPROC * 2)]
        obs = []
        for part in core.parallel_map(_exec, [(c, chk.seed) for c in chunks if c]):
            obs += part
        for part in core.parallel_map(_c02_sat, sat):
            obs += part
        return obs + flagrows
    from .. import suite
    g = _gen(indexed, sat, chk.seed, (suite.suite_rows(pid, chk) if pid in ('C02', 'C04') else []) + flagrows)
    if stream_after is None:
        return g
    import itertools
    return itertools.chain(g, stream_after)


def _gen(indexed, sat, seed, extra=None):
    """thorough tier: behaviours are executed and validated in slices (bounded memory)"""
    step = 16000
    for k in range(0, len(indexed), step):
        part_b = indexed[k:k + step]
        chunks = [part_b[i::core.NPROC * 2] for i in range(core.NPROC * 2)]
        obs = []
        for part in core.parallel_map(_exec, [(c, seed) for c in chunks if c]):
            obs += part
        yield obs
    if sat:
        obs = []
        for part in core.parallel_map(_c02_sat, sat):
            obs += part
        yield obs
    if extra:
        yield extra


def _maximal(behs):
    keys = {json.dumps(h, sort_keys=True) for h in behs}
    prefixes = set()
    for h in behs:
        for n in range(1, len(h)):
            prefixes.add(json.dumps(h[:n], sort_keys=True))
    return [h for h in behs if json.dumps(h, sort_keys=True) not in prefixes]


def account(chk, obs):
    from .. import registry
    rest = [r for r in obs if r.get('k') != 'sys']
    if rest:
        registry.default_account(chk, rest)
    obs = [r for r in obs if r.get('k') == 'sys']
    ev = len(obs)
    seen = set()
    for r in obs:
        a = r['a']
        live = [n for n, o in r['obs'].items() if 'null' not in o]
        flags = any('null' not in o and (o['st']['o'] or o['st']['u'] or o['st']['i']) for o in r['obs'].values())
        if len(live) >= 2 or flags:
            seen.add((r['b'], r['i']))
    chk.evaluations += ev
    chk.nontrivial += len(seen)
    chk.rule = (chk.rule + ' | ' if chk.rule else '') + ('cases = calls executed on real objects along behaviours of FxpSystem (transition cover of the bounded model + simulated '
                'behaviours); non-trivial = distinct (behaviour, step) at which at least two objects are alive (aliasing can matter) or some '
                'status flag is raised (stickiness / exactness of flags can matter)')
    for r in obs[:400:100]:
        chk.sample({'behaviour': r['b'], 'step': r['i'], 'action': r['a'], 'observed': {k: v for k, v in r['obs'].items() if 'null' not in v}, 'callbacks': r['cb']})
