"""C01 (storing quantizes exactly), C03 (wrap is modular arithmetic), C05 (rounding contracts).

Direction A: the small world of MC_Store (one TLC state per configuration, every quarter-LSB input over three
times the range) is executed on the real code through the carriers and routes C01 names.
Direction B: seeded boundary-directed/random stores on formats up to 52 bits (and 64..256 bits for C03).
Every observation is judged by Judge.tla (FxpMath over BigInt).
"""
import random, fractions, itertools
from .. import common, core, x_store

F = fractions.Fraction
ROUND = ['trunc', 'fix', 'floor', 'ceil', 'around']
OVF = ['saturate', 'wrap']

PROPS_FOR = {                      # which clauses the judge evaluates for a check
    'C01': ['C01'],
    'C03': ['C03'],
    'C05': ['C05'],
    'C04': ['C04'],
}


# ------------------------------------------------------------------ direction A (small world)
def _grid_vals(row):
    f = row['f']
    return [F(k4, 4) / (F(2) ** f) for k4 in range(row['glo'], row['ghi'] + 1)]


def _boundary_idx(row):
    """indices of the grid that hit a boundary class: range ends +-1 LSB (all quarter steps), ties, zero crossing"""
    glo, ghi, lo, hi = row['glo'], row['ghi'], row['lo'], row['hi']
    pts = set()
    for centre in (4 * lo, 4 * hi, 0, 4 * lo - 4 * (hi - lo + 1), 4 * hi + 4 * (hi - lo + 1)):
        for d in range(-6, 7):
            pts.add(centre + d)
    for c in range(lo - 2, hi + 3):             # every tie
        pts.add(4 * c + 2)
    return sorted(p - glo for p in pts if glo <= p <= ghi)


def _tag(rows):
    for r in rows:
        r['nat'] = True          # small world: eligible for the native-integer judge
    return rows


def _exec_small(args):
    row, pid, tier, rot = args
    fx = common.import_fxpmath()
    import numpy as np
    props = PROPS_FOR[pid]
    fmt = (row['s'], row['w'], row['f'])
    modes = (row['r'], row['o'])
    vals = _grid_vals(row)
    out = []
    # 1. bulk: the whole grid in one float64 array through the constructor (ascending -> monotone clause)
    out.append(x_store.observe(fx, np, fmt, modes, vals, 'ndarray-f64', 'ctor', props, True, {'sorted': True}))
    # 2. every grid point as a scalar Python float, route rotating over the four scalar routes
    sroutes = ['ctor', 'call', 'set_val', 'setitem', 'setitem-2d', 'call-reset', 'recfg', 'setitem-reuse', 'resize-signed', 'resize-fmt', 'like-signed', 'odd-config', 'config-obj', 'then-reject', 'reject-then', 'like-flagged']
    for j, route in enumerate(sroutes):
        sub = vals[(rot + j) % len(sroutes)::len(sroutes)]
        if sub:
            out.append(x_store.observe(fx, np, fmt, modes, sub, 'pyfloat', route, props, False))
    # 3. boundary classes through every other carrier and route
    bidx = _boundary_idx(row)
    bvals = [vals[i] for i in bidx]
    # 2b. doubles ONE ULP away from a tie / from an exact code (not single-limb: judged over BigInt, so they are not tagged 'nat')
    import math
    near = []
    for k in sorted({row['lo'] - 1, row['lo'], -1, 0, 1, row['hi'], row['hi'] + 1}):
        for t_ in (k + 0.5, float(k)):
            for d_ in (math.inf, -math.inf):
                near.append(F(math.nextafter(t_, d_)) / (F(2) ** row['f']))
    fine = [x_store.observe(fx, np, fmt, modes, near, ['pyfloat', 'np.float64'][rot % 2], sroutes[rot % len(sroutes)], props, False),
            x_store.observe(fx, np, fmt, modes, near, ['ndarray-f64', 'list'][rot % 2], ['ctor', 'call', 'set_val'][rot % 3], props, True)]
    fine = [o for o in fine if o is not None]
    if tier == 'quick' and rot % 3 != 0:
        # quick tier: the secondary carriers visit every third configuration (all of them in the thorough tier)
        return _tag([o for o in out if o is not None]) + fine
    if tier == 'thorough':
        scal = [(c, r) for c in x_store.SCALAR_CARRIERS if c not in ('pyfloat', 'pybool') for r in sroutes]
        pool = vals
    else:
        carr = [c for c in x_store.SCALAR_CARRIERS if c not in ('pyfloat', 'pybool')]
        scal = [(c, sroutes[(rot + i) % len(sroutes)]) for i, c in enumerate(carr)]
        pool = bvals
    for c, r in scal:
        out.append(x_store.observe(fx, np, fmt, modes, pool if tier == 'thorough' and r == 'ctor' else bvals, c, r, props, False))
    aroutes = ['ctor', 'call', 'set_val', 'setitem-slice', 'call-reset', 'recfg', 'setitem-reuse', 'resize-signed', 'resize-fmt', 'like-signed', 'odd-config', 'config-obj',
               'then-reject', 'reject-then', 'like-flagged']
    acar = [c for c in x_store.ARRAY_CARRIERS if c != 'ndarray-f64']
    bv = bvals if len(bvals) % 2 == 0 else bvals[:-1]
    for i, c in enumerate(acar):
        routes = aroutes if tier == 'thorough' else [aroutes[(rot + i) % len(aroutes)]]
        for r in routes:
            if r in ('setitem-slice', 'setitem-reuse') and (c in ('nested-list', 'nested-tuple') or c.startswith(('ndarray-2d', 'ndarray-3d', 'ndarray-i64-2d'))):
                continue
            out.append(x_store.observe(fx, np, fmt, modes, bv, c, r, props, True))
    # 3b. complex inputs: each component quantized on its own (boundary values; real part ascending, imaginary descending)
    if pid == 'C01' and (rot % 2 == 0 or tier == 'thorough'):
        for j, r_ in enumerate(['ctor', 'call', 'set_val'] if tier == 'thorough' else [['ctor', 'call', 'set_val'][rot % 3]]):    # (not x[i] = complex: a real array cannot take it)
            out += x_store.observe_complex(fx, np, fmt, modes, bvals, bvals[::-1], r_, props, scalar=True)
        out += x_store.observe_complex(fx, np, fmt, modes, bvals, bvals[::-1], ['ctor', 'call', 'set_val'][rot % 3], props, scalar=False)
    # 3c. C03 register clause: same-format wrap-mode + - * behaves like arithmetic modulo 2^n_word
    if pid == 'C03' and row['o'] == 'wrap' and 0 <= row['f'] <= row['w'] and row['w'] <= (4 if tier == 'thorough' else 3):
        from .. import x_arith
        lo_, hi_ = row['lo'], row['hi']
        cx = [a for a in range(lo_, hi_ + 1) for b in range(lo_, hi_ + 1)]
        cy = [b for a in range(lo_, hi_ + 1) for b in range(lo_, hi_ + 1)]
        for op in ('add', 'sub', 'mul'):
            out.append(x_arith.observe_arith(fx, np, ['C03'], op, fmt, fmt, cx, cy, route=['operator', 'function'][rot % 2], sizing='same',
                                             method=['raw', 'repr'][(rot // 2) % 2], xmodes=modes, ymodes=modes))
    # 4. C03: the same inputs shifted by multiples of the modulus 2^(n_word - n_frac) (wrap only)
    if pid == 'C03' and row['o'] == 'wrap':
        mod = F(2) ** (row['w'] - row['f'])
        inr = [v for v, k4 in zip(vals, range(row['glo'], row['ghi'] + 1)) if 4 * row['lo'] <= k4 <= 4 * row['hi'] + 3]
        for j in (-3, -2, -1, 1, 2, 3, 1 << 20, -(1 << 20)):
            out.append(x_store.observe(fx, np, fmt, modes, [v + j * mod for v in inr], 'ndarray-f64', 'ctor', props, True,
                                       {'shift': j}))
    return _tag([o for o in out if o is not None]) + fine


# ------------------------------------------------------------------ direction B (wide world)
def _wide_values(rng, s, w, f, n, int_only=False):
    lo, hi = ((-(1 << (w - 1)), (1 << (w - 1)) - 1) if s else (0, (1 << w) - 1))
    span = 1 << w
    k4s = set()
    for centre in (lo, hi, 0, lo - span, hi + span, lo + span // 2, rng.randint(lo, hi), rng.randint(lo, hi)):
        for d in (-5, -4, -3, -2, -1, 0, 1, 2, 3, 4, 5, 6):
            k4s.add(4 * centre + d)
    for _ in range(n):
        k4s.add(rng.randint(4 * (lo - span), 4 * (hi + span)))
        k4s.add(4 * rng.randint(lo - span, hi + span) + 2)          # tie
        k4s.add(4 * rng.randint(lo - span, hi + span))              # exact code
    for _ in range(n):            # sparse far-away values  M * 2^t  (exact doubles although |v*2^f| reaches 2^61)
        k4s.add(4 * rng.choice([-1, 1]) * rng.randint(1, 1 << rng.choice([1, 4, 10])) * (1 << rng.randint(0, 50)))
        k4s.add(4 * (rng.randint(lo, hi) + rng.choice([-1, 1]) * span * (1 << rng.randint(0, max(0, 44 - w)))))
    for tt in (w + 50, w + 51, w + 52, w + 53, 59, 60, 61):      # beyond the 53-bit mantissa relative to the word
        if w + 50 <= tt <= 61:
            for mant in (1, -1, 3, -3):
                if abs(mant) << (tt - 1) < (1 << 62):
                    k4s.add(4 * (mant << (tt - 1)))
                    k4s.add(4 * ((mant << (tt - 1)) + (span >> 1)))
    out = []
    for k4 in k4s:
        v = F(k4, 4) / (F(2) ** f)
        if int_only and v.denominator != 1:
            continue
        out.append(v)
    if not int_only:
        # doubles ONE ULP away from a tie or from an exact code (scaled), and odd scaled values that need all 53 bits of the mantissa
        import math
        for k in (0, 1, -1, 2, -2, hi, lo, rng.randint(lo, hi)):
            for t in (k + 0.5, k - 0.5, float(k)):
                for d in (math.inf, -math.inf):
                    out.append(F(math.nextafter(t, d)) / (F(2) ** f))
        for _ in range(2):
            out.append(F(rng.choice([-1, 1]) * ((1 << 52) + 2 * rng.randint(0, (1 << 51) - 1) + 1)) / (F(2) ** f))
    rng.shuffle(out)
    return out


def _in_core_domain(v, f):
    return abs(v) < 2 ** 53 and abs(v * F(2) ** f) < 2 ** 62 and F(float(v)) == v


def _exec_wide(args):
    seed, pid, count = args
    fx = common.import_fxpmath()
    import numpy as np
    rng = random.Random(seed)
    props = PROPS_FOR[pid]
    out = []
    sroutes = ['ctor', 'call', 'set_val', 'setitem', 'setitem-2d', 'call-reset', 'recfg', 'setitem-reuse', 'resize-signed', 'resize-fmt', 'like-signed', 'odd-config', 'config-obj', 'then-reject', 'reject-then', 'like-flagged']
    for _ in range(count):
        s = rng.random() < 0.5
        w = rng.choice([1, 2, 3, 5, 7, 8, 9, 10, 15, 16, 17, 24, 31, 32, 33, 40, 47, 48, 51, 52, rng.randint(1, 52), rng.randint(1, 10)])
        f = rng.choice([-8, -1, 0, 1, w // 2, w - 1, w, w + 1, w + 8, rng.randint(-8, w + 8)])
        r = rng.choice(ROUND)
        o = rng.choice(OVF) if pid != 'C03' else 'wrap'
        vals = [v for v in _wide_values(rng, s, w, f, 6) if _in_core_domain(v, f)][:24]
        if not vals:
            continue
        carrier = rng.choice(['pyfloat', 'pyfloat', 'np.float64', 'pyint', 'np.int64', '0d-f64', 'decstr', 'np.float32', 'np.float16',
                              'np.int32', 'np.uint64', 'np.int16', 'np.uint8', '0d-i64'])
        route = rng.choice(sroutes)
        out.append(x_store.observe(fx, np, (s, w, f), (r, o), vals, carrier, route, props, False))
        if rng.random() < 0.5:
            ac = rng.choice(['ndarray-f64', 'list', 'tuple', 'ndarray-i64', 'nested-list', 'ndarray-f32', 'ndarray-i32', 'ndarray-u8',
                            'list-decstr', 'nested-tuple', 'ndarray-2d', 'list-np.int8', 'list-np.int16', 'tuple-np.int32', 'list-np.uint8',
                            'list-np.float16', 'tuple-np.float32', 'list-np.uint16', 'list-mixed-np', 'ndarray-2d-F', 'ndarray-2d-T', 'ndarray-3d',
                            'ndarray-3d-swap', 'ndarray-i64-2d-F', 'ndarray-strided'])
            ar = rng.choice(['ctor', 'call', 'set_val', 'setitem-slice', 'call-reset', 'recfg', 'setitem-reuse', 'resize-signed', 'resize-fmt', 'like-signed', 'odd-config', 'config-obj', 'then-reject', 'reject-then', 'like-flagged'] if not (ac.startswith('nested') or ac.startswith(('ndarray-2d', 'ndarray-3d', 'ndarray-i64-2d'))) else ['ctor', 'call', 'set_val', 'recfg', 'resize-signed', 'like-signed', 'odd-config', 'config-obj', 'then-reject', 'reject-then', 'like-flagged'])
            vv = sorted(vals) if len(vals) % 2 == 0 else sorted(vals)[:-1]
            if vv:
                out.append(x_store.observe(fx, np, (s, w, f), (r, o), vv, ac, ar, props, True, {'sorted': True}))
        # Python integers whose scaled value sits exactly at / next to the 64-bit machine boundaries (flags and sides of C04 / C02 / C01)
        if pid in ('C04', 'C01', 'C02') and 0 <= f <= 60 and rng.random() < 0.4:
            edge = [(1 << (63 - f)), (1 << (63 - f)) - 1, (1 << (63 - f)) + 1, -(1 << (63 - f)), -(1 << (63 - f)) - 1, (1 << (64 - f)), (1 << (64 - f)) - 1,
                    -(1 << (64 - f)), (1 << 70) + 5, -(1 << 70) - 5]
            out.append(x_store.observe(fx, np, (s, w, f), (r, o), [F(i) for i in edge], 'pyint', rng.choice(sroutes), props, False, {'bigint': True}))
            out.append(x_store.observe(fx, np, (s, w, f), (r, o), [F(i) for i in edge[:6]], rng.choice(['list', 'tuple']), rng.choice(['ctor', 'call', 'set_val']), props, True,
                                       {'bigint': True}) if False else None)
        # floats of any finite magnitude under saturate with n_frac >= 0 (C01 domain extension)
        if pid == 'C01' and f >= 0 and rng.random() < 0.3:
            big = [F(rng.choice([-1, 1]) * rng.getrandbits(53) * 2 ** rng.randint(10, 960)) for _ in range(4)]
            big += [F(float(np.finfo(float).max)), -F(float(np.finfo(float).max)), F(2) ** 63, -F(2) ** 63, F(2) ** 64, F(2) ** 62]
            big = [b for b in big if F(float(b)) == b]
            out.append(x_store.observe(fx, np, (s, w, f), (r, 'saturate'), big, 'pyfloat', rng.choice(sroutes), props, False,
                                       {'huge': True}))
            # the same huge values in ONE array together with ordinary fractional inputs (every element is rounded by the configured rule)
            mix = big[:2] + vals[:6]
            rng.shuffle(mix)
            out.append(x_store.observe(fx, np, (s, w, f), (r, 'saturate'), mix, rng.choice(['ndarray-f64', 'list', 'tuple']),
                                       rng.choice(['ctor', 'call', 'set_val']), props, True, {'huge': True}))
    # narrow NumPy integer carriers at the boundary between their own width and the word: n_word = bits + n_frac (+-1)
    for _ in range(max(2, count // 6)):
        bits = rng.choice([8, 16, 32])
        f = rng.choice([0, 4, 1])
        s = rng.random() < 0.75
        w = bits + f + rng.choice([0, 0, -1, 1])
        if not (1 <= w <= 52):
            continue
        r, o = rng.choice(ROUND), (rng.choice(OVF) if pid != 'C03' else 'wrap')
        top = 1 << bits
        ints = sorted({0, 1, top // 2 - 1, top // 2, top // 2 + 1, top - 1, top - 2, rng.randrange(top), rng.randrange(top)})
        uc = {8: 'np.uint8', 16: 'np.uint16', 32: 'np.uint32'}[bits]
        out.append(x_store.observe(fx, np, (s, w, f), (r, o), [F(i) for i in ints], uc, rng.choice(sroutes), props, False))
        out.append(x_store.observe(fx, np, (s, w, f), (r, o), [F(i) for i in ints], 'ndarray-u%d' % bits, rng.choice(['ctor', 'call', 'set_val', 'setitem-slice']), props, True))
        if bits <= 16:
            out.append(x_store.observe(fx, np, (s, w, f), (r, o), [F(i) for i in ints], 'list-np.uint%d' % bits, rng.choice(['ctor', 'call', 'set_val']), props, True))
        sints = sorted({-top // 2, -top // 2 + 1, -1, 0, top // 2 - 1, rng.randrange(-top // 2, top // 2)})
        if bits <= 16:
            out.append(x_store.observe(fx, np, (s, w, f), (r, o), [F(i) for i in sints], 'ndarray-i%d' % bits, rng.choice(['ctor', 'call', 'set_val']), props, True))
        out.append(x_store.observe(fx, np, (s, w, f), (r, o), [F(i) for i in sints], {8: 'np.int8', 16: 'np.int16', 32: 'np.int32'}[bits], rng.choice(sroutes), props, False))
    if pid == 'C03':
        from .. import x_arith
        # register clause on wide words: chains of same-format wrap-mode + - *  (products only where no fractional narrowing of
        # a product beyond 2^53 is involved: n_frac = 0, or words up to 26 bits)
        for _ in range(count // 2 + 1):
            s = rng.random() < 0.5
            w = rng.choice([8, 16, 26, 31, 32, 33, 52, 63, 64, 65, 100, 128])
            f = rng.choice([0, 0, w // 2]) if w <= 26 else 0
            t = (s, w, f)
            lo, hi = ((-(1 << (w - 1)), (1 << (w - 1)) - 1) if s else (0, (1 << w) - 1))
            acc = rng.randint(lo, hi)
            for _ in range(4):
                c2 = rng.choice([lo, hi, 1, -1 if s else 2, rng.randint(lo, hi)])
                op = rng.choice(['add', 'sub', 'mul'])
                row_ = x_arith.observe_arith(fx, np, ['C03'], op, t, t, [acc], [c2], scalar=True, sizing='same', route=rng.choice(['operator', 'function']),
                                             xmodes=(rng.choice(ROUND), 'wrap'), ymodes=('trunc', 'wrap'), extra={'register': True})
                out.append(row_)
                if row_.get('k') != 'arith':
                    break
                acc = common.unwint(row_['cz'][0])
        # constants added to / multiplied into a wrap register (the constant is converted like the register, i.e. wraps as well)
        for _ in range(count // 2 + 1):
            s = rng.random() < 0.5
            w = rng.choice([4, 8, 12, 16])
            t = (s, w, rng.choice([0, 0, 2]))
            lo, hi = ((-(1 << (w - 1)), (1 << (w - 1)) - 1) if s else (0, (1 << w) - 1))
            cxs = [rng.randint(lo, hi) for _ in range(4)]
            c = F(rng.choice([hi + 45, 3 * (hi + 1) + 7, -(hi + 2), 300, 1, -1, 44]), 1 << t[2]) * (1 << t[2]) if rng.random() < 0.7 else F(rng.randint(-4 * hi, 4 * hi), 4)
            out.append(x_arith.observe_const(fx, np, ['C03'], rng.choice(['add', 'sub', 'mul']), t, cxs, c, rng.choice(['right', 'left', 'inplace']), 'same', 'same',
                                             (rng.choice(ROUND), 'wrap'), method=rng.choice(['raw', 'repr']), extra={'register': True},
                                             history=rng.random() < 0.5))       # (half of them: the SAME object met the constant under saturate before)
        # the register is an explicit out= / out_like= object in wrap mode fed by operands of OTHER formats and signedness
        # (no fractional narrowing: the register's n_frac is the exact result's)
        for _ in range(count // 2 + 1):
            op = rng.choice(['mul', 'mul', 'add', 'sub'])
            wx, wy = rng.choice([(30, 30), (31, 31), (28, 33), (20, 40), (12, 50), (8, 8), (26, 27), (24, 50), (50, 24), (16, 52), (rng.randint(2, 31), rng.randint(2, 31))])
            sx, sy = rng.choice([(True, False), (False, True), (True, True), (False, False)])
            if op == 'mul':
                fx_, fy_ = rng.randint(0, min(wx, 6)), rng.randint(0, min(wy, 6))
            else:               # sums and differences of operands whose binary points are far apart (one operand is shifted a long way)
                fx_, fy_ = rng.choice([0, wx, wx - 4, rng.randint(0, wx)]), rng.choice([0, wy, rng.randint(0, wy)])
            tf_ = fx_ + fy_ if op == 'mul' else max(fx_, fy_)
            tw = rng.choice([8, 16, 24, 31, 32, 33, 48, 52, 64, 65, 72, 100, 128])
            if tw < tf_:
                continue
            rx = ((-(1 << (wx - 1)), (1 << (wx - 1)) - 1) if sx else (0, (1 << wx) - 1))
            ry = ((-(1 << (wy - 1)), (1 << (wy - 1)) - 1) if sy else (0, (1 << wy) - 1))
            n = rng.choice([1, 3])
            cx = [rng.choice([rx[0], rx[1], rng.randint(*rx), rng.randint(*rx)]) for _ in range(n)]
            cy = [rng.choice([ry[0], ry[1], rng.randint(*ry), rng.randint(*ry)]) for _ in range(n)]
            out.append(x_arith.observe_arith(fx, np, ['C03'], op, (sx, wx, fx_), (sy, wy, fy_), cx, cy, scalar=(n == 1), sizing='optimal',
                                             route='function', method=rng.choice(['raw', 'raw', 'repr']) if wx + wy <= 50 else 'raw',
                                             target=rng.choice(['out', 'out_like']), tfmt=(True, tw, tf_), tmodes=(rng.choice(ROUND), 'wrap'),
                                             extra={'register': True}))
        # words of 64 bits and more fed with CONTAINERS of Python integers where NumPy on its own would pick float64
        for _ in range(count // 4 + 1):
            s = rng.random() < 0.5
            w = rng.choice([64, 65, 72, 100, 128])
            band = [(1 << 63) + 5, -3 if s else 3, 7, (1 << 63) + 1, (1 << 64) - 1, rng.randint(0, 1 << 62)]
            rng.shuffle(band)
            out.append(x_store.observe(fx, np, (s, w, 0), (rng.choice(ROUND), 'wrap'), [F(b) for b in band],
                                       'pyint-' + rng.choice(['list', 'tuple', 'nested-list', 'nested-tuple', 'list-1xk', 'list-3d', 'obj-2d-F', 'obj-2d-T', 'obj-3d-swap']),
                                       rng.choice(['ctor', 'call', 'set_val']), props, True, {'wide': True}))
        # n_word in 64..256 with Python-integer inputs of any size (the int64/object switch)
        for _ in range(count // 2 + 1):
            s = rng.random() < 0.5
            w = rng.choice([64, 65, 66, 72, 96, 127, 128, 129, 200, 256, rng.randint(64, 256)])
            f = 0
            lo, hi = ((-(1 << (w - 1)), (1 << (w - 1)) - 1) if s else (0, (1 << w) - 1))
            ks = [lo, hi, lo - 1, hi + 1, 0, -1, 1, (1 << w), -(1 << w), (1 << w) + 5, 3 * (1 << w) - 1, rng.randint(lo, hi),
                  rng.choice([-1, 1]) * rng.getrandbits(2 * w), rng.choice([-1, 1]) * rng.getrandbits(4 * w), (1 << 63), (1 << 64) - 1,
                  -(1 << 63) - 1, (1 << 1000) + rng.getrandbits(64)]
            route = rng.choice(['ctor', 'call', 'set_val', 'setitem', 'call-reset', 'recfg', 'resize-signed', 'resize-fmt', 'like-signed', 'odd-config', 'config-obj'])
            out.append(x_store.observe(fx, np, (s, w, f), ('trunc', 'wrap'), [F(k) for k in ks], 'pyint', route, props, False,
                                       {'wide': True}))
    return [o for o in out if o is not None]


# ------------------------------------------------------------------ the check
def run(chk):
    pid, tier = chk.pid, chk.tier
    rows, r = chk.model_check('MC_Store.tla', 'MC_Store_%s_%s.cfg' % (pid, tier), label='MC_Store', must_print=True)
    rows = [x for x in rows if x.get('k') == 'store']
    chk.extra['small_world'] = {'configurations': len(rows), 'W': 4 if tier == 'quick' else 6,
                                'inputs': sum(x['ghi'] - x['glo'] + 1 for x in rows)}
    chk.exhaustive = True
    nwide = (640 if tier == 'quick' else 6400)
    seeds = [(chk.seed * 1000 + i, pid, nwide // core.NPROC + 1) for i in range(core.NPROC)]
    jobs = [(row, pid, tier, i) for i, row in enumerate(rows)]
    if tier == 'quick':
        obs = []
        for part in core.parallel_map(_exec_small, jobs, chunksize=4):
            obs += part
        for part in core.parallel_map(_exec_wide, seeds):
            obs += part
        return obs
    from .. import suite
    return _stream(jobs, seeds, suite.suite_rows(pid, chk))


def _stream(jobs, seeds, extra=None):
    """thorough tier: execute and hand over the observations in chunks of configurations (bounded memory)"""
    step = 40
    for k in range(0, len(jobs), step):
        obs = []
        for part in core.parallel_map(_exec_small, jobs[k:k + step], chunksize=2):
            obs += part
        yield obs
    obs = []
    for part in core.parallel_map(_exec_wide, seeds):
        obs += part
    yield obs
    if extra:
        yield extra            # the repository's own test-suite, traced
