"""C13 (bitwise operators on the n_word-bit two's-complement word) and C14 (shifts)."""
import random
from .. import common, core, x_bits
from .arith import rng_of, T, _tag


def _c13_small(args):
    row, pid, tier, idx = args
    fx = common.import_fxpmath()
    import numpy as np
    tx, ty = T(row['x']), T(row['y'])
    lo, hi = rng_of(tx)
    ly, hy = rng_of(ty)
    xs = list(range(lo, hi + 1))
    out = [x_bits.observe_bitwise(fx, np, [pid], 'not', tx, xs), x_bits.observe_bitwise(fx, np, [pid], 'not', tx, xs, hist=['inplace', 'view', 'elementwise', 'intfmt', 'fortran', 'transposed', 'empty'][idx % 7])]
    for c in xs[:: max(1, len(xs) // 4)]:
        out.append(x_bits.observe_bitwise(fx, np, [pid], 'not', tx, [c], scalar=True))
    for op in ('and', 'or', 'xor'):
        for cy in range(ly, hy + 1):
            # x array (all codes) with y a scalar Fxp; and scalar with scalar on a rotating subset
            out.append(x_bits.observe_bitwise(fx, np, [pid], op, tx, xs, ty=ty, cys=cy, hist=(['inplace', 'view', 'elementwise', 'intfmt', 'fortran', 'transposed'][((cy + idx) // 3) % 6] if (cy + idx) % 3 == 0 else None)))
            if (cy + idx) % 3 == 0 or tier == 'thorough':
                out.append(x_bits.observe_bitwise(fx, np, [pid], op, tx, [xs[(cy + idx) % len(xs)]], ty=ty, cys=cy, scalar=True))
        # in-place spellings (x &= y, x |= m, ...), with fixed-point and integer-mask operands
        for cy in (ly, hy, ly + (idx % (hy - ly + 1))):
            out.append(x_bits.observe_bitwise(fx, np, [pid], op, tx, xs, ty=ty, cys=cy, iop=True))
        out.append(x_bits.observe_bitwise(fx, np, [pid], op, tx, xs, mask=[1, (1 << tx[1]) - 1, 1 << (tx[1] - 1), -2][idx % 4], iop=True,
                                          hist=[None, 'reworded', 'likeword'][idx % 3]))
        out.append(x_bits.observe_bitwise(fx, np, [pid], op, tx, xs, ty=ty, cys=[ly, hy][idx % 2], hist=['reworded', 'likeword'][idx % 2]))
        if tx == ty:
            m = 1 << tx[1]
            for mask in sorted({0, 1, m - 1, m >> 1, (m >> 1) - 1, -1, -m, m, m + 1, 2 * m - 1, -2, 5, (idx * 7) % m}):
                for side in ('right', 'left'):
                    out.append(x_bits.observe_bitwise(fx, np, [pid], op, tx, xs, mask=mask, side=side))
                out.append(x_bits.observe_bitwise(fx, np, [pid], op, tx, xs, mask=mask, side='right', mask_as=['uint8', 'int8', 'int16', 'uint16', 'int32', 'int64', 'uint64', '0d'][(mask + idx) % 8]))
            out.append(x_bits.observe_bitwise(fx, np, [pid], op, tx, [lo], mask=m - 1, side='left', scalar=True))
    if tx == ty:
        for w2 in (tx[1] + 1, max(1, tx[1] - 1), tx[1] + 8):
            if w2 != tx[1]:
                for op in ('and', 'or', 'xor'):
                    out.append(x_bits.observe_mismatch(fx, np, [pid], op, tx, (ty[0], w2, 0)))
    return _tag(out)


def _c13_wide(args):
    seed, pid, count = args
    fx = common.import_fxpmath()
    import numpy as np
    rng = random.Random(seed)
    out = []
    for _ in range(count):
        w = rng.choice([16, 31, 32, 33, 63, 64, 65, 100, 128])
        tx = (rng.random() < 0.5, w, rng.choice([0, w, w // 2]))
        ty = (rng.random() < 0.5, w, rng.choice([0, w, w // 3]))
        lo, hi = rng_of(tx)
        ly, hy = rng_of(ty)
        xs = [lo, hi, 0, -1 if tx[0] else 1, lo + 1, hi - 1, hi >> 1, (hi >> 1) + 1] + [rng.randint(lo, hi) for _ in range(4)]
        xs = [min(hi, max(lo, c)) for c in xs]
        ys = [ly, hy, 0, rng.randint(ly, hy), rng.randint(ly, hy)]
        out.append(x_bits.observe_bitwise(fx, np, [pid], 'not', tx, xs))
        out.append(x_bits.observe_bitwise(fx, np, [pid], 'not', tx, [rng.choice(xs)], scalar=True))
        # operands that were created EMPTY (or from a dtype string) and then loaded with codes: their value type is float
        out.append(x_bits.observe_bitwise(fx, np, [pid], 'not', tx, xs, hist='empty'))
        out.append(x_bits.observe_bitwise(fx, np, [pid], rng.choice(['and', 'or', 'xor']), tx, xs, mask=rng.choice([(1 << w) - 1, rng.getrandbits(w), -2, 1]), side=rng.choice(['left', 'right']), hist='empty'))
        out.append(x_bits.observe_bitwise(fx, np, [pid], rng.choice(['and', 'or', 'xor']), tx, [rng.choice(xs)], ty=ty, cys=rng.choice(ys), scalar=True, hist='empty'))
        for op in ('and', 'or', 'xor'):
            cy = rng.choice(ys)
            out.append(x_bits.observe_bitwise(fx, np, [pid], op, tx, [rng.choice(xs)], ty=ty, cys=cy, scalar=True))
            out.append(x_bits.observe_bitwise(fx, np, [pid], op, tx, xs, ty=ty, cys=rng.choice(ys)))
            mask = rng.choice([(1 << w) - 1, 1 << (w - 1), rng.getrandbits(w), rng.getrandbits(w + 8), -1, -rng.getrandbits(w)])
            out.append(x_bits.observe_bitwise(fx, np, [pid], op, tx, xs, mask=mask, side=rng.choice(['left', 'right'])))
            out.append(x_bits.observe_bitwise(fx, np, [pid], op, tx, [rng.choice(xs)], mask=mask, side=rng.choice(['left', 'right']), scalar=True))
            m2 = rng.choice([(1 << w) - 1, 1 << (w - 1), rng.getrandbits(w), rng.getrandbits(max(1, w - 1)), 0x55, -1, -2])
            out.append(x_bits.observe_bitwise(fx, np, [pid], op, tx, xs, mask=m2, side='right', mask_as=rng.choice(['uint8', 'int8', 'int16', 'uint16', 'int32', 'uint32', 'int64', 'uint64', '0d'])))
        # N-D operands whose rows differ in magnitude (rows that fit int64 next to rows that do not)
        small = [min(hi, max(lo, c)) for c in (0, 1, 5, rng.randint(0, 100), -1 if tx[0] else 2, rng.randint(0, 1 << 20))]
        mixed = small + xs[:6]
        if rng.random() < 0.5:
            rng.shuffle(mixed)
        shp = rng.choice([(2, 6), (6, 2), (3, 4), (2, 2, 3), (1, 12)])
        out.append(x_bits.observe_bitwise(fx, np, [pid], 'not', tx, mixed, shape=shp))
        op = rng.choice(['and', 'or', 'xor'])
        out.append(x_bits.observe_bitwise(fx, np, [pid], op, tx, mixed, mask=rng.choice([(1 << w) - 1, 1 << (w - 1), rng.getrandbits(w), 15]), side=rng.choice(['left', 'right']), shape=shp))
        out.append(x_bits.observe_bitwise(fx, np, [pid], op, tx, mixed, ty=ty, cys=rng.choice(ys), shape=shp, hist=rng.choice([None, 'inplace', 'view'])))
        out.append(x_bits.observe_mismatch(fx, np, [pid], rng.choice(['and', 'or', 'xor']), tx, (ty[0], w + rng.choice([-1, 1, 32]), 0)))
        out += wide_nd_and_inplace(fx, np, pid, rng, tx, ty)
    return [o for o in out if o is not None]


def wide_nd_and_inplace(fx, np, pid, rng, tx, ty):
    """N-D operands whose ROWS are homogeneous in magnitude class (a row of results below 2^63 next to a row in [2^63, 2^64) next
    to a row beyond: NumPy would give each row another dtype), in-place spellings, and operands that lived at another word length"""
    out = []
    w = tx[1]
    lo, hi = rng_of(tx)
    ly, hy = rng_of(ty)
    clamp = lambda c: min(hi, max(lo, c))
    k = rng.choice([2, 3])
    rows = [[clamp(rng.randint(0, (1 << 62))) for _ in range(k)], [clamp(rng.randint(1 << 63, (1 << 64) - 1)) for _ in range(k)],
            [clamp(rng.randint(lo, hi)) for _ in range(k)], [clamp(-rng.randint(1, 1 << 40)) for _ in range(k)]]
    rng.shuffle(rows)
    nrow = rng.choice([2, 3, 4])
    codes = [c for r in rows[:nrow] for c in r]
    shp = (nrow, k) if rng.random() < 0.7 else (nrow, 1, k)
    for op in ('and', 'or', 'xor'):
        mask = rng.choice([(1 << w) - 1, (1 << 63), (1 << 63) - 1, (1 << 64) - 1, rng.getrandbits(w), 0])
        out.append(x_bits.observe_bitwise(fx, np, [pid], op, tx, codes, mask=mask, side=rng.choice(['left', 'right']), shape=shp))
        out.append(x_bits.observe_bitwise(fx, np, [pid], op, tx, codes, ty=ty, cys=rng.choice([ly, hy, 0, rng.randint(ly, hy)]), shape=shp))
        out.append(x_bits.observe_bitwise(fx, np, [pid], op, tx, codes[:k], mask=mask, iop=True))
        out.append(x_bits.observe_bitwise(fx, np, [pid], op, tx, [codes[0]], ty=ty, cys=rng.choice([ly, hy, rng.randint(ly, hy)]), scalar=True, iop=True))
        if w < 60:
            out.append(x_bits.observe_bitwise(fx, np, [pid], op, tx, codes[:k], mask=mask, hist=rng.choice(['reworded', 'likeword'])))
    out.append(x_bits.observe_bitwise(fx, np, [pid], 'not', tx, codes, shape=shp))
    if w < 60:
        out.append(x_bits.observe_bitwise(fx, np, [pid], 'not', tx, codes[:k], hist=rng.choice(['reworded', 'likeword'])))
    return out


def _c14_small(args):
    row, pid, tier, idx = args
    fx = common.import_fxpmath()
    import numpy as np
    tx = T(row['x'])
    lo, hi = rng_of(tx)
    xs = list(range(lo, hi + 1))
    out = []
    for n in range(0, tx[1] + 4):
        for mode in ('expand', 'trunc', 'keep'):
            for d in ('l', 'r'):
                ovf = 'wrap' if (n + idx) % 2 else 'saturate'
                # every code as a scalar (expand-mode growth depends on the whole array, so scalars and arrays both matter)
                for c in xs:
                    out.append(x_bits.observe_shift(fx, np, [pid], d, mode, tx, [c], n, ovf=ovf, scalar=True))
                out.append(x_bits.observe_shift(fx, np, [pid], d, mode, tx, xs, n, ovf=ovf))
                out.append(x_bits.observe_shift(fx, np, [pid], d, mode, tx, xs, n, ovf=ovf, hist=['inplace', 'view', 'elementwise', 'resign', 'intfmt', 'fortran', 'transposed', 'intval'][(n + idx) % 8]))
                out.append(x_bits.observe_shift(fx, np, [pid], d, mode, tx, [xs[(n + idx) % len(xs)]], n, ovf=ovf, scalar=True, hist='inplace'))
                out.append(x_bits.observe_shift(fx, np, [pid], d, mode, tx, xs, n, ovf=ovf, bystander=True, scalar=False))
                out.append(x_bits.observe_shift(fx, np, [pid], d, mode, tx, [xs[(n + idx + 2) % len(xs)]], n, ovf=ovf, bystander=True, scalar=True))
                out.append(x_bits.observe_shift(fx, np, [pid], d, mode, tx, xs, n, ovf=ovf, iop=True, hist=[None, 'intval', 'inplace', 'intfmt'][(n + idx) % 4]))
                out.append(x_bits.observe_shift(fx, np, [pid], d, mode, tx, [xs[(n + idx + 1) % len(xs)]], n, ovf=ovf, scalar=True, iop=True, hist=[None, 'intval', 'element'][(n + idx) % 3]))
                for c in xs:
                    for dd in sorted({lo, hi, 0, 1, 2, 4} & set(xs)):
                        if (c + dd + n + idx) % 4 == 0 or tier == 'thorough':
                            out.append(x_bits.observe_shift(fx, np, [pid], d, mode, tx, [c, dd], n, ovf=ovf))
    return _tag(out)


def _c14_wide(args):
    seed, pid, count = args
    fx = common.import_fxpmath()
    import numpy as np
    rng = random.Random(seed)
    out = []
    for _ in range(count):
        w = rng.choice([7, 8, 12, 16, 24, 31, 32, rng.randint(7, 32)])
        tx = (rng.random() < 0.5, w, rng.choice([0, w // 2]))
        lo, hi = rng_of(tx)
        xs = [lo, hi, 0, -1 if tx[0] else 1, 1, lo + 1, hi - 1, 1 << (w - 2), (hi >> 1) + 1] + [rng.randint(lo, hi) for _ in range(3)]
        xs = [min(hi, max(lo, c)) for c in xs]
        for n in {0, 1, w - 1, w, w + 3, rng.randint(0, w + 3)}:
            if w + n > 62:
                continue
            for mode in ('expand', rng.choice(['trunc', 'keep'])):
                for d in ('l', 'r'):
                    out.append(x_bits.observe_shift(fx, np, [pid], d, mode, tx, [rng.choice(xs)], n, ovf=rng.choice(['saturate', 'wrap']), scalar=True))
                    out.append(x_bits.observe_shift(fx, np, [pid], d, mode, tx, xs, n, ovf=rng.choice(['saturate', 'wrap'])))
    return [o for o in out if o is not None]


def run(chk):
    pid, tier = chk.pid, chk.tier
    rows, r = chk.model_check('MC_Bits.tla', 'MC_Bits_%s_%s.cfg' % (pid, tier), label='MC_Bits', must_print=True)
    rows = [x for x in rows if x.get('k') == 'bits']
    chk.extra['small_world'] = {'configurations': len(rows)}
    chk.exhaustive = True
    small, wide = (_c13_small, _c13_wide) if pid == 'C13' else (_c14_small, _c14_wide)
    n = (400 if tier == 'quick' else 8000)
    per = max(1, n // (core.NPROC * (1 if tier == 'quick' else 8)))
    wjobs = [(chk.seed * 1000 + i, pid, per) for i in range(n // per)]
    return core.stream(small, [(row, pid, tier, i) for i, row in enumerate(rows)], wide, wjobs, tier, step=16, chunksize=1)
