"""C10: format conversion gives the same correctly quantized value by every route."""
import random
from .. import common, core, x_conv
from .arith import rng_of, T, MODES, _rand_fmt, _tag


def _small(args):
    row, pid, tier, idx = args
    fx = common.import_fxpmath()
    import numpy as np
    ts, td = T(row['x']), T(row['y'])
    lo, hi = rng_of(ts)
    codes = list(range(lo, hi + 1))
    out = []
    k = idx
    for route in x_conv.ROUTES:
        modes = MODES if tier == 'thorough' else [MODES[(k + j) % 10] for j in (0, 3, 7)]
        for m in modes:
            k += 1
            out.append(x_conv.observe_conv(fx, np, [pid], ts, td, codes, route, MODES[(k + 4) % 10], m, byvalue=(k % 2 == 0)))
        out.append(x_conv.observe_conv(fx, np, [pid], ts, td, codes, route, MODES[(k + 3) % 10], MODES[(k + 6) % 10], hist=(['inplace', 'view', 'elementwise', 'resign', 'intfmt', 'fortran', 'transposed'][k % 7] if route not in ('setitem-elem', 'setitem-slice', 'resize-view') else ['inplace', 'view', 'elementwise', 'resign', 'intfmt'][k % 5])))       # (the element / slice / view routes are written for 1-D sources)
        # scalars and 2-D shapes
        out.append(x_conv.observe_conv(fx, np, [pid], ts, td, codes[k % len(codes)], route, MODES[(k + 1) % 10], MODES[k % 10], byvalue=(k % 2 == 1)))
        # one-element arrays keep their shape ((1,), (1, 1)) on every route
        if route not in ('setitem-elem', 'setitem-slice', 'resize-view'):
            out.append(x_conv.observe_conv(fx, np, [pid], ts, td, [codes[(k + 1) % len(codes)]], route, MODES[(k + 2) % 10], MODES[(k + 7) % 10],
                                           shape=[(1,), (1, 1)][k % 2], byvalue=(k % 3 == 0)))
        if len(codes) >= 4 and len(codes) % 2 == 0 and route not in ('setitem-elem', 'setitem-slice', 'resize-view'):
            out.append(x_conv.observe_conv(fx, np, [pid], ts, td, codes, route, MODES[(k + 2) % 10], MODES[(k + 5) % 10],
                                           shape=(2, len(codes) // 2)))
    return _tag(out)


def _wide(args):
    seed, pid, count = args
    fx = common.import_fxpmath()
    import numpy as np
    rng = random.Random(seed)
    out = []
    for _ in range(count):
        ts = _rand_fmt(rng, 52, fmin=-8, fext=8)
        lo, hi = rng_of(ts)
        codes = [lo, hi, lo + 1, hi - 1, 0, 1, -1 if ts[0] else 2, hi // 2, lo // 2] + [rng.randint(lo, hi) for _ in range(7)]
        codes = [min(hi, max(lo, c)) for c in codes]
        cur_t, cur = ts, codes
        # a chain of up to 6 successive conversions; each step is judged from the codes observed before it
        for step in range(rng.randint(1, 6)):
            td = _rand_fmt(rng, 52, fmin=-8, fext=8)
            # core domain: |v * 2^f_dst| < 2^62  and |v| < 2^53
            vmaxbits = cur_t[1] - cur_t[2]
            if vmaxbits + td[2] >= 62 or vmaxbits >= 53 or cur_t[1] > 52:
                continue
            route = rng.choice(x_conv.ROUTES)
            shape = (2, len(cur) // 2) if (rng.random() < 0.3 and len(cur) % 2 == 0 and route not in ('setitem-elem', 'setitem-slice', 'resize-view')) else None
            row = x_conv.observe_conv(fx, np, [pid], cur_t, td, cur if rng.random() < 0.8 else cur[rng.randrange(len(cur))], route,
                                      rng.choice(MODES), rng.choice(MODES), shape=shape, extra={'chain': step}, byvalue=rng.random() < 0.5)
            if row is None:
                continue
            out.append(row)
            if row.get('k') != 'conv' or (row['z']['s'], row['z']['w'], row['z']['f']) != td or len(row['cd']) != len(cur):
                break
            if len(row['cd']) > 1:
                cur_t, cur = td, [common.unwint(c) for c in row['cd']]
    return [r for r in out if r is not None]


def run(chk):
    pid, tier = chk.pid, chk.tier
    rows, r = chk.model_check('MC_Conv.tla', 'MC_Conv_C10_%s.cfg' % tier, label='MC_Conv', must_print=True)
    rows = [x for x in rows if x.get('k') == 'conv']
    chk.extra['small_world'] = {'format_pairs': len(rows)}
    chk.exhaustive = True
    n = 800 if tier == 'quick' else 12000
    per = max(1, n // (core.NPROC * (1 if tier == 'quick' else 8)))
    wide = [(chk.seed * 1000 + i, pid, per) for i in range(n // per)]
    return core.stream(_small, [(row, pid, tier, i) for i, row in enumerate(rows)], _wide, wide, tier, step=100, chunksize=4)
