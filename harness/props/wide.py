"""C19: no silent wrap at the 64-bit machine boundary in arithmetic or in storing.

Model side: BigInt is checked against native integers (MC_BigInt, production base 2^15) and the growth-rule lemma
(MC_Arith: exact, never overflows, for every pair of small formats) is re-checked; the property itself lives on wide
words, so the bulk is direction B: seeded operand formats of 2..70 bits (any n_frac in 0..n_word, any signedness mix,
results up to 256 bits via expression chains), operand codes at extremes / near extremes / random, scalars and arrays;
and Python integers up to 2^1000 stored into formats of 1..52 bits with 0 <= n_frac <= n_word+3 by every route.
Every event is judged by TLC over BigInt (ArithOptimal / Quantize).
"""
import random, fractions
from .. import common, core, x_arith, x_store
from .arith import rng_of, nint, _grow_word

F = fractions.Fraction


def _codes(rng, t, n):
    lo, hi = rng_of(t)
    c = [lo, hi, lo + 1, hi - 1, 0, 1, hi >> 1, (hi >> 1) + 1, lo >> 1, hi - rng.getrandbits(8), lo + rng.getrandbits(8)]
    if t[1] > 54:
        c += [(1 << 53) + 1, (1 << 53) - 1, -(1 << 53) - 1, (1 << 62) + 3, (1 << 63) - 1, -(1 << 63), (1 << 63), (1 << 64) - 1]
    c += [rng.randint(lo, hi) for _ in range(n)]
    return [min(hi, max(lo, v)) for v in c]


def _exec(args):
    seed, count = args
    fx = common.import_fxpmath()
    import numpy as np
    rng = random.Random(seed)
    out = []
    words = [2, 8, 16, 26, 27, 30, 31, 32, 33, 40, 52, 53, 54, 58, 60, 62, 63, 64, 65, 66, 70]
    for _ in range(count):
        sx, sy = rng.random() < 0.5, rng.random() < 0.5
        wx, wy = rng.choice(words + [rng.randint(2, 70)]), rng.choice(words + [rng.randint(2, 70)])
        if rng.random() < 0.35:          # directed at the carrier switch: the exact result needs 62..66 bits
            tot = rng.choice([62, 63, 64, 65, 65, 66])
            wx = rng.randint(2, tot - 2)
            wy = tot - wx
            if rng.random() < 0.5:
                sx = sy = True           # (two signed operands: the product of the two most negative codes is +2^(wx+wy-2))
        tx = (sx, wx, rng.choice([0, wx, wx // 2, rng.randint(0, wx)]))
        ty = (sy, wy, rng.choice([0, wy, wy // 2, rng.randint(0, wy)]))
        for op in ('add', 'sub', 'mul'):
            a, b = _codes(rng, tx, 3), _codes(rng, ty, 3)
            # scalars: extreme corners and random
            for (ca, cb) in [(a[0], b[0]), (a[1], b[1]), (a[0], b[1]), (a[1], b[0]), (rng.choice(a), rng.choice(b))]:
                out.append(x_arith.observe_arith(fx, np, ['C19'], op, tx, ty, [ca], [cb], scalar=True,
                                                 route=rng.choice(['operator', 'function', 'numpy', 'iop'])))
            # arrays
            k = min(len(a), len(b), 8)
            out.append(x_arith.observe_arith(fx, np, ['C19'], op, tx, ty, a[:k], b[:k], route=rng.choice(['operator', 'function'])))
            # operands with a history: used (in wide operations too), then rewritten in place
            k2 = k - k % 2
            if k2 >= 4 and rng.random() < 0.5:
                out.append(x_arith.observe_arith(fx, np, ['C19'], op, tx, ty, a[:k2], b[:k2], route=rng.choice(['operator', 'function']),
                                                 dirty=rng.choice(x_arith.HIST)))
        # chains: results up to 256 bits
        pool = [(tx, _codes(rng, tx, 0)[rng.randint(0, 1)]), (ty, _codes(rng, ty, 0)[rng.randint(0, 1)])]
        for _ in range(4):
            (t1, c1), (t2, c2) = rng.choice(pool), rng.choice(pool)
            op = rng.choice(['add', 'sub', 'mul', 'mul'])
            if _grow_word(op, t1, t2) > 256:
                continue
            row = x_arith.observe_arith(fx, np, ['C19'], op, t1, t2, [c1], [c2], scalar=True, extra={'tree': True})
            out.append(row)
            if row.get('k') == 'arith':
                z = row['z']
                pool.append(((z['s'], z['w'], z['f']), common.unwint(row['cz'][0])))
        # Python integers of any size into narrow formats
        s = rng.random() < 0.5
        w = rng.choice([1, 2, 8, 16, 31, 32, 33, 47, 52, rng.randint(1, 52)])
        f = rng.choice([0, 1, w // 2, w, w + 3, rng.randint(0, w + 3)])
        lo, hi = rng_of((s, w, f))
        ints = [rng.choice([-1, 1]) * rng.getrandbits(b) for b in (20, 45, 53, 61, 62, 63, 64, 65, 70, 128, 300, 1000)]
        ints += [(1 << 63), (1 << 63) - 1, -(1 << 63), -(1 << 63) - 1, (1 << 64), (1 << 64) - 1, -(1 << 64), 967145078, 2 ** 62 >> max(f, 1),
                 (hi >> f) if f <= w else 0, (hi >> f) + 1 if f <= w else 1, (lo >> f) - 1 if f <= w else -1, (1 << (63 - f)) if f < 63 else 1,
                 (1 << (63 - f)) - 1 if f < 63 else 2, -(1 << (63 - f)) - 1 if f < 63 else -2, (1 << 1000), -(1 << 1000) + 1]
        r, o = rng.choice(['trunc', 'fix', 'floor', 'ceil', 'around']), rng.choice(['saturate', 'wrap'])
        route = rng.choice(['ctor', 'call', 'set_val', 'setitem', 'call-reset'])
        out.append(x_store.observe(fx, np, (s, w, f), (r, o), [F(i) for i in ints], 'pyint', route, ['C19'], False, {'bigint': True}))
    return [r for r in out if r is not None]


def run(chk):
    tier = chk.tier
    chk.model_check('MC_BigInt.tla', 'MC_BigInt_prod.cfg', label='BigInt(B=2^15) vs native Int')
    chk.model_check('MC_BigInt.tla', 'MC_BigInt_b4.cfg' if tier == 'quick' else 'MC_BigInt_b2.cfg', label='BigInt small base vs native Int')
    chk.model_check('MC_Arith.tla', 'MC_Arith_C07_quick.cfg', label='growth rules exact / never overflow (small world)')
    # design-level model of the carrier switch (MW = 8, MF = 5): the repaired decision rule is exact and raises nothing for every
    # pair of formats up to MW+1 bits; the rule of the pinned tree must be rejected (informational, see DESIGN 3.5)
    chk.model_check('MC_Machine.tla', 'MC_Machine_fixed.cfg', label='Machine: repaired int64/Python-integer decision rule (MW=8, MF=5)')
    from .. import tlc as _tlc
    rn = _tlc.run('MC_Machine.tla', 'MC_Machine_pinned.cfg')
    chk.subruns.append(dict(rn.summary(), label='Machine: decision rule of the pinned tree (must be rejected)', kind='model-check (must fail)'))
    if not rn.violated:
        raise core.Machinery('the machine-word model did not reject the pinned decision rule')
    n = 260 if tier == 'quick' else 6000
    obs = []
    for part in core.parallel_map(_exec, [(chk.seed * 1000 + i, n // core.NPROC + 1) for i in range(core.NPROC)]):
        obs += part
    from .. import suite
    obs += suite.suite_rows('C19', chk)          # the repository's own test-suite, traced (optimal + - * beyond 53 bits, big integers)
    return obs
