"""C16 (comparisons and numeric conversions) and C17 (scale and bias)."""
import random, fractions
from .. import common, core, x_misc
from .arith import rng_of, T, MODES, _tag, all_pairs, _rand_fmt

F = fractions.Fraction


def _fits(np, v, numtype):
    tp = getattr(np, numtype)
    try:
        if np.issubdtype(tp, np.integer):
            return v.denominator == 1 and np.iinfo(tp).min <= v.numerator <= np.iinfo(tp).max
        return F(float(tp(float(v)))) == v
    except (OverflowError, ValueError):
        return False


def _c16_small(args):
    row, pid, tier, idx = args
    fx = common.import_fxpmath()
    import numpy as np
    tx, ty = T(row['x']), T(row['y'])
    cxs, cys = all_pairs(tx, ty)
    out = [x_misc.observe_cmp(fx, np, [pid], tx, cxs, ty=ty, cys=cys),
           x_misc.observe_cmp(fx, np, [pid], tx, cxs, ty=ty, cys=cys, hist=['inplace', 'view', 'elementwise', 'resign', 'intfmt', 'fortran', 'transposed'][idx % 7])]
    lo, hi = rng_of(tx)
    xs = list(range(lo, hi + 1))
    # against plain numbers on both sides: the other operand's values as numbers, plus values between grid points
    ly, hy = rng_of(ty)
    nums = [F(c) / F(2) ** ty[2] for c in range(ly, hy + 1)]
    nums += [n + F(1, 2 ** (max(tx[2], ty[2]) + 1)) for n in nums[:4]]
    px = [x for x in xs for _ in nums]
    pn = [n for _ in xs for n in nums]
    out.append(x_misc.observe_cmp(fx, np, [pid], tx, px, nums=pn, side='right'))
    out.append(x_misc.observe_cmp(fx, np, [pid], tx, px, nums=pn, side='right', hist=['view', 'inplace', 'elementwise', 'intfmt'][idx % 4]))
    # plain numbers carried by narrow NumPy dtypes (only values exactly representable in the dtype)
    for numtype in ('int8', 'uint8', 'int16', 'float16', 'float32', 'int64'):
        ok = [(x, n_) for x, n_ in zip(px, pn) if _fits(np, n_, numtype)]
        if ok:
            out.append(x_misc.observe_cmp(fx, np, [pid], tx, [a for a, _ in ok], nums=[b for _, b in ok], side='right', numtype=numtype))
            out.append(x_misc.observe_cmp(fx, np, [pid], tx, [ok[idx % len(ok)][0]], nums=[ok[idx % len(ok)][1]], side='right', scalar=True, numtype=numtype))    # (a NumPy scalar on the LEFT goes through ufunc dispatch: not C16's plain number)
    for j, nv in enumerate(nums):
        if (j + idx) % 3 == 0 or tier == 'thorough':
            out.append(x_misc.observe_cmp(fx, np, [pid], tx, xs, nums=[nv] * len(xs), side='left'))
    k = idx % len(cxs)
    out.append(x_misc.observe_cmp(fx, np, [pid], tx, [cxs[k]], ty=ty, cys=[cys[k]], scalar=True))
    out.append(x_misc.observe_cmp(fx, np, [pid], tx, [px[k % len(px)]], nums=[pn[k % len(pn)]], side=['right', 'left'][idx % 2], scalar=True))
    if tx == ty or idx % 7 == 0:
        out.append(x_misc.observe_numconv(fx, np, [pid], tx, xs))
        out.append(x_misc.observe_numconv(fx, np, [pid], tx, xs, byvalue=True))
        out.append(x_misc.observe_numconv(fx, np, [pid], tx, xs, hist=['inplace', 'view', 'elementwise', 'intfmt', 'shifted', 'element', 'fortran', 'transposed'][idx % 8]))
    return _tag(out)


def _c16_wide(args):
    seed, pid, count = args
    fx = common.import_fxpmath()
    import numpy as np
    rng = random.Random(seed)
    out = []
    for _ in range(count):
        tx = _rand_fmt(rng, 24)
        ty = _rand_fmt(rng, 24)
        lo, hi = rng_of(tx)
        ly, hy = rng_of(ty)
        cxs, cys = [], []
        for _ in range(10):
            cx = rng.choice([lo, hi, 0, rng.randint(lo, hi), rng.randint(lo, hi)])
            # neighbours of x's value on y's grid (values adjacent across formats)
            base = (cx << max(0, ty[2] - tx[2])) >> max(0, tx[2] - ty[2]) if True else 0
            for d in (-1, 0, 1, 2):
                cy = min(hy, max(ly, base + d))
                cxs.append(cx)
                cys.append(cy)
        out.append(x_misc.observe_cmp(fx, np, [pid], tx, cxs, ty=ty, cys=cys))
        out.append(x_misc.observe_cmp(fx, np, [pid], tx, [cxs[3]], ty=ty, cys=[cys[3]], scalar=True))
        nums = [F(c) / F(2) ** ty[2] + rng.choice([0, 0, F(1, 2 ** 30), -F(1, 2 ** 30)]) for c in cys]
        out.append(x_misc.observe_cmp(fx, np, [pid], tx, cxs, nums=nums, side='right'))
        ints = [F(rng.randint(-128, 127)) for _ in cxs]
        out.append(x_misc.observe_cmp(fx, np, [pid], tx, cxs, nums=ints, side='right', numtype=rng.choice(['int8', 'int16', 'float16'])))
        out.append(x_misc.observe_cmp(fx, np, [pid], tx, [cxs[0]], nums=[ints[0]], side='right', scalar=True, numtype=rng.choice(['int8', 'int16', 'float16'])))
        out.append(x_misc.observe_cmp(fx, np, [pid], tx, cxs, ty=ty, cys=cys, hist=rng.choice(['inplace', 'view', 'elementwise', 'resign', 'intfmt'])))
        out.append(x_misc.observe_cmp(fx, np, [pid], tx, cxs, nums=[nums[0]] * len(cxs), side='left'))
        t8 = _rand_fmt(rng, 8)
        l8, h8 = rng_of(t8)
        out.append(x_misc.observe_numconv(fx, np, [pid], t8, list(range(l8, h8 + 1))[:64], byvalue=rng.random() < 0.5))
    return [o for o in out if o is not None]


def _c17_small(args):
    rows, pid, tier = args
    fx = common.import_fxpmath()
    import numpy as np
    out = []
    for idx, row in rows:
        t = T(row['x'])
        scale = F(row['sk'], 1 << row['sj'])
        bias = F(row['bm']) * F(2) ** row['be']
        us = [F(k4, 4) / F(2) ** t[2] for k4 in range(row['glo'], row['ghi'] + 1)]
        modes = (row['r'], row['o'])
        route = ['ctor', 'call', 'set_val', 'like', 'template'][idx % 5]
        out.append(x_misc.observe_scaled(fx, np, [pid], t, modes, scale, bias, us, route=route, scalar=False))
        ints = [u for u in us if (u * scale + bias).denominator == 1]
        if len(ints) >= 3:
            out.append(x_misc.observe_scaled(fx, np, [pid], t, modes, scale, bias, ints[:3 * (len(ints) // 3)], route=route, scalar=False))
        sub = us if tier == 'thorough' else us[idx % 5::5]
        out.append(x_misc.observe_scaled(fx, np, [pid], t, modes, scale, bias, sub, route=route, scalar=True))
        npcar = ['uint8', 'int8', 'int16', 'uint16', 'int32', 'uint32', 'float32', 'float16', 'int64', 'uint64'][idx % 10]
        out.append(x_misc.observe_scaled(fx, np, [pid], t, modes, scale, bias, us, route=route, scalar=bool(idx % 2), npcar=npcar))
        if idx % 9 == 0 and row['o'] == 'saturate':
            # size inference for scaled objects sizes the transformed value (signed default)
            for u in us[idx % 7::7][:3]:
                out.append(x_misc.observe_scaled(fx, np, [pid], t, ('trunc', 'saturate'), scale, bias, [u], scalar=True, infer=True))
    return _tag(out)


def _c17_wide(args):
    seed, pid, count = args
    fx = common.import_fxpmath()
    import numpy as np
    rng = random.Random(seed)
    out = []
    for _ in range(count):
        s = rng.random() < 0.5
        w = rng.randint(2, 16)
        f = rng.randint(0, w)
        t = (s, w, f)
        lo, hi = rng_of(t)
        scale = F(rng.choice([1, 3, 5, 7, -1, -3, -5, -7, 9, 11, -13]), 1 << rng.randint(0, 4)) * rng.choice([1, 2, 4])
        bias = F(rng.randint(-40, 40), 1 << rng.randint(0, 3))
        c_ = rng.random()
        if c_ < 0.15:
            bias = F(0)            # only scale= is passed
        elif c_ < 0.3:
            scale = F(1)           # only bias= is passed
        k4s = [4 * lo, 4 * hi, 4 * lo - 1, 4 * hi + 1, 4 * hi + 2, 4 * lo - 2, 0, 2, -2, 6] + [rng.randint(4 * (lo - 3), 4 * (hi + 3)) for _ in range(8)]
        us = [F(k, 4) / F(2) ** f for k in k4s]
        us = [u for u in us if F(float(u * scale + bias)) == u * scale + bias and F(float(u * scale)) == u * scale]
        if not us:
            continue
        m = rng.choice(MODES)
        out.append(x_misc.observe_scaled(fx, np, [pid], t, m, scale, bias, us, route=rng.choice(['ctor', 'call', 'set_val', 'like', 'template']), scalar=True))
        out.append(x_misc.observe_scaled(fx, np, [pid], t, m, scale, bias, us, route=rng.choice(['ctor', 'call', 'set_val', 'like', 'template']), scalar=False))
        out.append(x_misc.observe_scaled(fx, np, [pid], t, m, scale, bias, us, route=rng.choice(['ctor', 'call', 'set_val', 'like', 'template']), scalar=rng.random() < 0.5,
                                         npcar=rng.choice(['uint8', 'int8', 'int16', 'uint16', 'int32', 'uint32', 'float32', 'float16', 'int64', 'uint64'])))
        ints = [u for u in us if (u * scale + bias).denominator == 1]
        if len(ints) >= 2:
            out.append(x_misc.observe_scaled(fx, np, [pid], t, m, scale, bias, ints[:3 * (len(ints) // 3)] or ints, route=rng.choice(['ctor', 'call', 'set_val', 'like', 'template']), scalar=False))
        if rng.random() < 0.3:
            out.append(x_misc.observe_scaled(fx, np, [pid], t, ('trunc', 'saturate'), scale, bias, us[:1], scalar=True, infer=True))
    return [o for o in out if o is not None]


def run(chk):
    pid, tier = chk.pid, chk.tier
    rows, r = chk.model_check('MC_Misc.tla', 'MC_Misc_%s_%s.cfg' % (pid, tier), label='MC_Misc', must_print=True)
    rows = [x for x in rows if x.get('k') == 'misc']
    chk.extra['small_world'] = {'configurations': len(rows)}
    chk.exhaustive = True
    n = (480 if tier == 'quick' else 8000)
    per = max(1, n // (core.NPROC * (1 if tier == 'quick' else 8)))
    if pid == 'C16':
        wjobs = [(chk.seed * 1000 + i, pid, per) for i in range(n // per)]
        return core.stream(_c16_small, [(row, pid, tier, i) for i, row in enumerate(rows)], _c16_wide, wjobs, tier, step=100, chunksize=8)
    idxd = list(enumerate(rows))
    if tier == 'quick':
        idxd = idxd[chk.seed % 4::4]        # quick: a quarter of the (format, modes, scale, bias) configurations, rotating with the seed
        chk.exhaustive = False
        chk.extra['small_world']['executed_configurations'] = len(idxd)
    nchunk = core.NPROC * (4 if tier == 'quick' else 64)
    chunks = [(idxd[i::nchunk], pid, tier) for i in range(nchunk) if idxd[i::nchunk]]
    wjobs = [(chk.seed * 1000 + i, pid, per) for i in range(n // per)]
    return core.stream(_c17_small, chunks, _c17_wide, wjobs, tier, step=core.NPROC * 2, chunksize=1)
