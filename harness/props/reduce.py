"""C15: NumPy reductions and linear algebra on fixed-point arrays are exact and never overflow with optimal sizing."""
import random, itertools
from .. import common, core, x_reduce
from .arith import rng_of, _tag

AXFN = ['sum', 'cumsum', 'prod', 'cumprod', 'max', 'min', 'sort']


def prod_word(t, k, fn):
    """word length of the optimal result of prod / cumprod over k elements (C15's stated domain: result word <= 53 bits).
    prod: k words.  cumprod: every partial product has to fit - k words, plus the room the FIRST partial products need when the
    integer length or the fraction length of the operand is negative (rule CumProdFmt of MC_Reduce)."""
    s, w, f = t
    if fn == 'prod':
        return k * w
    sg = 1 if s else 0
    F = k * f if f >= 0 else f
    NI = max(k * w - sg - k * f, w - sg - f)
    return sg + NI + F


def _all_calls(fx, np, pid, t, codes, shape, rng, t2=None, full=True):
    out = []
    axes = [None] + (list(range(len(shape))) if len(shape) == 2 else [0])
    lo, hi = rng_of(t)
    for fn in AXFN:
        for route in ('np', 'method'):
            for ax in axes:
                if fn in ('prod', 'cumprod'):
                    k = len(codes) if (ax is None or len(shape) == 1 or fn == 'cumprod') else shape[ax]     # (cumprod sizes its result for ALL elements whatever the axis: the stated domain is a result word <= 53 bits)
                    if prod_word(t, k, fn) > 53:
                        continue
                if not full and rng.random() < 0.5:
                    continue
                via = rng.choice(['direct', 'direct', 'T', 'slice'] + (['row', 'col'] if len(shape) == 1 else []))
                out.append(x_reduce.observe_reduce(fx, np, [pid], fn, route, t, codes, shape, axis=ax, via=via))
    cl, ch = sorted([rng.randint(lo, hi), rng.randint(lo, hi)])
    # limits beyond the representable range on either side (a no-op clip, a one-sided one): a negative lower limit for unsigned formats
    span = hi - lo + 1
    wide_limits = [(lo - rng.randint(1, span + 3), hi + rng.randint(1, span + 3)), (lo - rng.randint(1, 9), rng.randint(lo, hi)),
                   (rng.randint(lo, hi), hi + rng.randint(1, 9))]
    for route in ('np', 'method'):
        out.append(x_reduce.observe_reduce(fx, np, [pid], 'clip', route, t, codes, shape, lohi=wide_limits[rng.randrange(3)]))
    for route in ('np', 'method'):
        out.append(x_reduce.observe_reduce(fx, np, [pid], 'clip', route, t, codes, shape, lohi=(cl, ch)))
        out.append(x_reduce.observe_reduce(fx, np, [pid], 'transpose', route, t, codes, shape))
        if len(shape) == 2:
            for off in (0, 1, -1):
                if (off >= 0 and off < shape[1]) or (off < 0 and -off < shape[0]):
                    out.append(x_reduce.observe_reduce(fx, np, [pid], 'diagonal', route, t, codes, shape, offset=off))
                    out.append(x_reduce.observe_reduce(fx, np, [pid], 'trace', route, t, codes, shape, offset=off))
    return out


def _dot_calls(fx, np, pid, t, t2, rng, ext_only, n):
    out = []
    lo, hi = rng_of(t)
    l2, h2 = rng_of(t2)
    pick = (lambda a, b: rng.choice([a, b])) if ext_only else (lambda a, b: rng.choice([a, b, rng.randint(a, b)]))
    shapes = [((n,), (n,)), ((2, n), (n,)), ((n,), (n, 2)), ((2, n), (n, 3)), ((3, n), (n, 1))]
    for sa, sb in shapes:
        ca = [pick(lo, hi) for _ in range(sa[0] * (sa[1] if len(sa) == 2 else 1))]
        cb = [pick(l2, h2) for _ in range(sb[0] * (sb[1] if len(sb) == 2 else 1))]
        for route in ('np', 'method') + (('matmul',) if (len(sa) == 2 and len(sb) == 2) else ()):
            out.append(x_reduce.observe_reduce(fx, np, [pid], 'dot', route, t, ca, sa, t2=t2, codes2=cb, shape2=sb,
                                               via=rng.choice(['direct', 'T', 'slice'])))
    # aliasing: the same object as both operands (vectors and square matrices, negative entries in the matrix square)
    if tuple(t) == tuple(t2):
        for sa in ((n,), (2, 2), (3, 3)):
            k = sa[0] * (sa[1] if len(sa) == 2 else 1)
            ca = [pick(lo, hi) for _ in range(k)]
            for route in ('np', 'method') + (('matmul',) if len(sa) == 2 else ()):
                out.append(x_reduce.observe_reduce(fx, np, [pid], 'dot', route, t, ca, sa, t2=t, codes2=ca, shape2=sa, via='same-object'))
    return out


def _small(args):
    row, pid, tier, idx = args
    fx = common.import_fxpmath()
    import numpy as np
    rng = random.Random(idx * 7919 + 13)
    t = (row['s'], row['w'], row['f'])
    n = row['n']
    lo, hi = rng_of(t)
    out = []
    # every element at an extreme: all of {Lo,Hi}^n for the 1-D array
    for v in itertools.product([lo, hi], repeat=n):
        for fn in AXFN:
            if fn in ('prod', 'cumprod') and prod_word(t, n, fn) > 53:
                continue
            for route in ('np', 'method'):
                out.append(x_reduce.observe_reduce(fx, np, [pid], fn, route, t, list(v), (n,), axis=None if (len(out) % 2) else 0))
    # all codes / random codes, 1-D and 2-D shapes up to 3x3, every function, both routes, every axis
    for shape in ([(n,)] + ([(2, 2), (2, 3), (3, 2), (3, 3), (1, 3), (3, 1)] if n in (3, 4, 5) else [])):
        size = shape[0] * (shape[1] if len(shape) == 2 else 1)
        for rep in range(2 if tier == 'quick' else 5):
            codes = [rng.choice([lo, hi]) if rep == 0 else rng.randint(lo, hi) for _ in range(size)]
            out += _all_calls(fx, np, pid, t, codes, shape, rng)
    t2 = (not t[0], max(1, t[1] - 1), min(t[2], max(1, t[1] - 1)))      # mixed signedness in dot
    for tt in (t, t2):
        out += _dot_calls(fx, np, pid, t, tt, rng, True, n)
        out += _dot_calls(fx, np, pid, t, tt, rng, False, n)
    return _tag(out)


def _wide(args):
    seed, pid, count = args
    fx = common.import_fxpmath()
    import numpy as np
    rng = random.Random(seed)
    out = []
    for _ in range(count):
        s = rng.random() < 0.5
        w = rng.randint(2, 12)
        # (a quarter of the formats have a negative or an oversized fraction length: negative n_frac / negative n_int)
        t = (s, w, rng.randint(0, w) if rng.random() < 0.75 else rng.choice([-2, -1, w + 1, w + 2, w + 3]))
        lo, hi = rng_of(t)
        shape = rng.choice([(rng.randint(1, 8),), (2, 2), (2, 3), (3, 2), (3, 3), (1, 3), (3, 1), (2, 4)])
        size = shape[0] * (shape[1] if len(shape) == 2 else 1)
        mode = rng.random()
        codes = [rng.choice([lo, hi]) if mode < 0.4 else (lo if mode < 0.5 else rng.randint(lo, hi)) for _ in range(size)]
        out += _all_calls(fx, np, pid, t, codes, shape, rng, full=False)
        t2 = (rng.random() < 0.5, rng.randint(2, 12), 0)
        t2 = (t2[0], t2[1], rng.randint(0, t2[1]))
        n = rng.randint(1, 8)
        if t[1] + t2[1] + 3 <= 53:
            out += _dot_calls(fx, np, pid, t, t2, rng, mode < 0.5, n)[:rng.randint(2, 6)]
    return [o for o in out if o is not None]


def run(chk):
    pid, tier = chk.pid, chk.tier
    rows, r = chk.model_check('MC_Reduce.tla', 'MC_Reduce_C15_%s.cfg' % tier, label='MC_Reduce', must_print=True)
    rows = [x for x in rows if x.get('k') == 'reduce']
    # the negative instance must be REJECTED by TLC: the rule cumprod had before repair D27 ("n words, n fractions") does not hold
    # every partial product when the integer or the fraction length is negative
    from .. import tlc
    rn = tlc.run('MC_Reduce.tla', 'MC_Reduce_C15_neg.cfg')
    chk.subruns.append(dict(rn.summary(), label='negative instance: cumprod sized for the last product only', kind='model-check (must fail)'))
    if not rn.violated:
        raise core.Machinery('the negative instance (old cumprod rule) was not rejected by TLC')
    chk.extra['small_world'] = {'configurations': len(rows)}
    chk.exhaustive = True
    n = (160 if tier == 'quick' else 3000)
    per = max(1, n // (core.NPROC * (1 if tier == 'quick' else 8)))
    wjobs = [(chk.seed * 1000 + i, pid, per) for i in range(n // per)]
    return core.stream(_small, [(row, pid, tier, i) for i, row in enumerate(rows)], _wide, wjobs, tier, step=16, chunksize=1)
