"""Executing format conversions by every route C10 names and logging observations (kind "conv")."""
from . import common
from .common import wint
from .x_arith import mk, fmt_of, modes_of, mk_hist

ROUTES = ['resize', 'resize-dtype', 'resize-view', 'like=', 'like()', 'ctor', 'ctor-dtype', 'call', 'set_val', 'equal', 'setitem-elem', 'setitem-slice',
          'resize-nint-w', 'resize-nint-f', 'resize-changed', 'like=kw']


def dtype_str(t):
    return 'fxp-%s%d/%d' % ('s' if t[0] else 'u', t[1], t[2])


def mkv(fx, np, t, codes, shape=None, **cfg):
    """like x_arith.mk but the source is built BY VALUE (exactly representable numbers), so that its value type
    (vdtype int / float) is what ordinary use produces"""
    import fractions
    s, w, f = t
    if w > 50 or abs(f) > 60:
        return mk(fx, np, t, codes, shape, **cfg)
    def val(c):
        v = fractions.Fraction(c) / fractions.Fraction(2) ** f
        return int(v) if v.denominator == 1 else float(v)
    if isinstance(codes, int):
        x = fx.Fxp(val(codes), bool(s), w, f, **cfg)
    else:
        vals = [val(c) for c in codes]
        a = np.array(vals) if shape is None else np.array(vals).reshape(shape)
        x = fx.Fxp(a, bool(s), w, f, **cfg)
    return x


def observe_conv(fx, np, props, ts, td, codes, route, smodes, dmodes, shape=None, extra=None, byvalue=False, hist=None):
    """convert the values held by a source of format ts into format td by `route`.
    smodes: modes of the source object; dmodes: modes of the destination (the governing ones)."""
    Fxp = fx.Fxp
    base = {'k': 'conv', 'p': list(props), 'x': dict(zip('swf', (bool(ts[0]), ts[1], ts[2]))),
            'y': dict(zip('swf', (bool(td[0]), td[1], td[2]))), 'route': route, 'r': dmodes[0], 'o': dmodes[1],
            'sm': {'r': smodes[0], 'o': smodes[1]}, 'carrier': 'array' if not isinstance(codes, int) else 'scalar'}
    if extra:
        base.update(extra)
    base['src'] = 'value' if byvalue else 'raw'
    mk = mkv if byvalue else globals()['mk']
    if hist:        # the source received its codes by in-place writes after having been used
        base['src'] = 'hist-' + hist
        mk = lambda fx_, np_, t_, c_, shape_=None, **cfg_: mk_hist(fx_, np_, t_, c_, shape_, mode=hist, **cfg_)
    try:
        scalar = isinstance(codes, int)
        clist = [codes] if scalar else list(codes)
        if route == 'resize-view':
            # history: the converted object is a VIEW (slice) of a parent; converting it must leave the parent (the source
            # of its values) unchanged
            if scalar:
                return None
            parent = mk(fx, np, ts, clist, None, rounding=smodes[0], overflow=smodes[1])
            src = parent[0:len(clist)]
            src.config.rounding, src.config.overflow = dmodes
            src.resize(bool(td[0]), td[1], td[2])
            dst = src
            src_after = common.codes_of(parent)
            sshape = [len(clist)]
        elif route in ('resize', 'resize-dtype', 'resize-nint-w', 'resize-nint-f', 'resize-changed'):
            # the object converts itself: its own modes govern
            src = mk(fx, np, ts, codes, shape, rounding=dmodes[0], overflow=dmodes[1])
            keep = mk(fx, np, ts, codes, shape)
            ni = td[1] - td[2] - int(bool(td[0]))
            if route.startswith('resize-nint') and ni < 0:
                return None
            if route == 'resize':
                src.resize(bool(td[0]), td[1], td[2])
            elif route == 'resize-nint-w':          # sizes spelled with the integer length
                src.resize(signed=bool(td[0]), n_word=td[1], n_int=ni)
            elif route == 'resize-nint-f':
                src.resize(signed=bool(td[0]), n_frac=td[2], n_int=ni)
            elif route == 'resize-changed':         # only what changes is passed
                kwr = {}
                if bool(td[0]) != bool(ts[0]): kwr['signed'] = bool(td[0])
                if td[1] != ts[1]: kwr['n_word'] = td[1]
                if td[2] != ts[2]: kwr['n_frac'] = td[2]
                src.resize(**kwr)
            else:
                src.resize(dtype=dtype_str(td))
            dst = src
            src_after = common.codes_of(keep)
            sshape = list(np.shape(keep.val))
        else:
            src = mk(fx, np, ts, codes, shape, rounding=smodes[0], overflow=smodes[1])
            sshape = list(np.shape(src.val))
            kw = dict(rounding=dmodes[0], overflow=dmodes[1])
            def bystander(ref):
                # an UNRELATED object made like= the destination / template under other modes and sizing, and an element view of it,
                # reconfigured: nothing of that may reach `ref`
                o = Fxp(0.3, like=ref, rounding={'trunc': 'ceil', 'ceil': 'floor'}.get(dmodes[0], 'trunc'),
                        overflow='wrap' if dmodes[1] == 'saturate' else 'saturate', op_sizing='same')
                o.config.shifting = 'trunc'
                # ... and objects derived from `ref` by the OTHER deriving routes (the like() method, deepcopy, ~, indexing of an
                # array made like it), each reconfigured and reset
                other_r = {'trunc': 'ceil', 'ceil': 'floor'}.get(dmodes[0], 'trunc')
                other_o = 'wrap' if dmodes[1] == 'saturate' else 'saturate'
                for make in (lambda: Fxp(0.3, True, 9, 3).like(ref), lambda: ref.deepcopy(), lambda: ~ref if ref.val is not None else None,
                             lambda: Fxp([0.3, 0.6], like=ref)[0], lambda: Fxp(ref, like=ref)):
                    try:
                        d_ = make()
                        if d_ is None:
                            continue
                        d_.config.rounding = other_r
                        d_.config.overflow = other_o
                        d_.rounding = other_r
                        d_(2.0 ** (int(ref.n_word) - int(ref.n_frac) + 2) + 0.3 * 2.0 ** -int(ref.n_frac))
                        d_.reset()
                    except Exception:
                        pass
                return o
            if route == 'like=':
                tmpl = Fxp(None, bool(td[0]), td[1], td[2], **kw)
                bystander(tmpl)
                dst = Fxp(src, like=tmpl)
            elif route == 'like=kw':               # a template of ANOTHER format, overridden by explicit sizes
                tmpl = Fxp(None, not bool(td[0]), td[1] + 3, td[2] + 1, **kw)
                ni = td[1] - td[2] - int(bool(td[0]))
                if ni >= 0 and len(clist) % 2:
                    dst = Fxp(src, like=tmpl, signed=bool(td[0]), n_int=ni, n_frac=td[2])
                else:
                    dst = Fxp(src, like=tmpl, signed=bool(td[0]), n_word=td[1], n_frac=td[2])
            elif route == 'like()':
                tmpl = Fxp(None, bool(td[0]), td[1], td[2], **kw)
                bystander(tmpl)
                dst = src.like(tmpl)
            elif route == 'ctor':
                dst = Fxp(src, bool(td[0]), td[1], td[2], **kw)
            elif route == 'ctor-dtype':
                dst = Fxp(src, dtype=dtype_str(td), **kw)
            elif route == 'call':
                dst = Fxp(None, bool(td[0]), td[1], td[2], **kw)
                bystander(dst)
                dst(src)
            elif route == 'set_val':
                dst = Fxp(None, bool(td[0]), td[1], td[2], **kw)
                dst.set_val(src)
            elif route == 'equal':
                dst = Fxp(np.zeros(np.shape(src.val)) if not scalar else None, bool(td[0]), td[1], td[2], **kw)
                bystander(dst)
                dst.equal(src)
            elif route == 'setitem-elem':
                # every element assigned individually: dst[i] = src[i]
                if scalar:
                    big = Fxp(np.zeros(3), bool(td[0]), td[1], td[2], **kw)
                    big[1] = src
                    dst = big[1]
                else:
                    flat = mk(fx, np, ts, clist, None, rounding=smodes[0], overflow=smodes[1])
                    big = Fxp(np.zeros(len(clist)), bool(td[0]), td[1], td[2], **kw)
                    for i in range(len(clist)):
                        big[i] = flat[i]
                    dst = big
                    sshape = [len(clist)]
            elif route == 'setitem-slice':
                if scalar:
                    return None
                flat = mk(fx, np, ts, clist, None, rounding=smodes[0], overflow=smodes[1])
                big = Fxp(np.zeros(len(clist) + 2), bool(td[0]), td[1], td[2], **kw)
                big[1:len(clist) + 1] = flat
                dst = big[1:len(clist) + 1]
                sshape = [len(clist)]
            else:
                raise ValueError(route)
            src_after = common.codes_of(src)
        cd = common.codes_of(dst)
        fl = common.flags_of(dst)
        return dict(base, z=fmt_of(dst), zm=modes_of(dst), cs=[wint(c) for c in clist], cd=[wint(c) for c in cd],
                    ca=[wint(c) for c in src_after], sshape=sshape, dshape=list(np.shape(dst.val)), fo=[fl['o']], fu=[fl['u']],
                    fi=[fl['i']], v=[0] * len(clist))
    except Exception as ex:
        return dict(base, k='error', err=type(ex).__name__, msg=str(ex)[:200], cs=[wint(c) for c in ([codes] if isinstance(codes, int) else list(codes))[:4]])
