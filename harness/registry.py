"""Which module decides which property."""
COMMON_ASSUMPTIONS = [
    'TLC 1.8 evaluates the TLA+ operators correctly; BigInt limb arithmetic is checked against native Int by MC_BigInt (B=2,4,8 exhaustive on -70..70, B=2^15 sampled)',
    'exhaustive only on the small world stated in coverage; wider formats are boundary-directed + seeded random samples judged by TLC',
    'Python converts numbers to/from the wire format (limb arrays, exact dyadics) and executes the real code; it never computes an expected value',
    'floats inside the stated domains are exact dyadics (no IEEE rounding is modelled)',
]

_STORE_NOTE = ('Trusted: TLC/SANY, the JVM, the TLA+ modules BigInt/FxpMath (cross-checked: BigInt vs native Int, FxpAlgo vs FxpMath, closed-form '
               'relations vs quantified forms), NumPy for building the input carriers, and the observation code in harness/x_store.py (reads val, '
               'status, get_val of the real objects). Exhaustive for n_word<=4 (quick) / <=6 (thorough); 52-bit and wider formats are sampled.')
PROPS = {
    'C01': {'module': 'store',
            'technique': 'TLC exhaustive small-world model check (MC_Store: FxpAlgo.StoreAlgo = FxpMath.Quantize) + replay of every generated case on the real code through all carriers/routes + TLC trace validation (JudgeBody over BigInt) of seeded wide-format stores',
            'level_text': 'TLC enumerates every configuration (signed, n_word<=W, -8<=n_frac<=n_word+8, 5 roundings x 2 overflows) and, per configuration, every quarter-LSB input over three times the range; each case is executed on the real Fxp through every carrier and route the property names and every observation (code, read-back) is judged by the TLA+ Quantize; formats up to 52 bits and huge floats are sampled with boundary-directed values and judged the same way.',
            'level_note': _STORE_NOTE},
    'C03': {'module': 'store',
            'technique': 'TLC exhaustive model check of wrap (unique congruent representative = mask-and-sign-extend; shift invariance) + replay of the wrap small world incl. inputs shifted by multiples of the modulus + TLC trace validation of 64..256-bit Python-integer stores',
            'level_text': 'WrapUnique/ShiftInvariant are invariants of MC_Store over all codes of all formats with n_word<=W; every wrap case and its shifted copies are executed on the real code and judged by relation (in range and congruent to the rounded input modulo 2^n_word) without the reference quantizer; n_word 64..256 with integers up to 2^1000 are sampled.',
            'level_note': _STORE_NOTE},
    'C05': {'module': 'store',
            'technique': 'TLC exhaustive model check of quantizer-free rounding relations (quantified over all representable codes) + TLC trace validation of observed (input, stored) pairs from the real code against the closed-form relations',
            'level_text': 'The direction / half-LSB / ties-to-even / <1 LSB / idempotence / monotonicity relations are stated over ALL representable codes in MC_Store (so they guard the oracle of C01) and shown equivalent to closed forms; the closed forms are then evaluated by TLC on every (input, stored code) pair observed from the real implementation on the small world and on sampled 52-bit formats, never calling the quantizer.',
            'level_note': _STORE_NOTE},
}

NOT_APPLICABLE = {}

HOOKS = {
    'guard': 'FXPMATH_VERIF_TRACE',
    'enable': 'no source hook is needed by the checks registered so far: they drive the public API of /repo\'s working tree (sys.path[0]=/repo) and observe public attributes; FXPMATH_VERIF_TRACE=<file> is reserved for the tracing module fxpmath/_verif.py (recording the repository test-suite as a trace)',
    'baseline_off_cmd': 'cd /repo && /venv/bin/python -m pytest -ra -q -p no:cacheprovider --timeout=900 --continue-on-collection-errors',
    'source_commits': [],
    'add_only': True,
}

ENGINES = [
    {'name': 'tlc-exhaustive', 'path': 'spec/mc/MC_*.tla', 'serves_properties': ['C01', 'C03', 'C05'],
     'kind_free_text': 'TLC breadth-first model checking of the small worlds (algorithm-shaped FxpAlgo against property-level FxpMath) and generation of case rows'},
    {'name': 'tlc-trace-validation', 'path': 'spec/JudgeBody.tla (JudgeB over BigInt, JudgeN native)', 'serves_properties': ['C01', 'C03', 'C05'],
     'kind_free_text': 'total-verdict validation of observation rows recorded from the real implementation; one TLC state per row'},
    {'name': 'replayer', 'path': 'harness/', 'serves_properties': ['C01', 'C03', 'C05'],
     'kind_free_text': 'executes TLC-generated cases and seeded wide-format programs on /repo\'s working tree and records observations (never computes expected values)'},
]

NOTES = ('All checks: ./check <id> --tier quick|thorough [--seed N]; exit 0 held / 1 VIOLATION / 2 machinery failure. known_findings.json lists recorded '
         'defects (open) and repaired ones (fixed). See DESIGN.md.')


def default_account(chk, obs):
    """evaluations = judged elements; non-trivial = distinct elements whose write raised a flag or that sit in an error row
    (measured from the observations, no oracle involved)."""
    ev = 0
    seen = set()
    for row in obs:
        n = len(row.get('v', [])) or 1
        ev += n
        if row.get('k') == 'error':
            seen.add(('err', row.get('route'), row.get('carrier'), row.get('err')))
            continue
        fo, fu, fi = row.get('fo', []), row.get('fu', []), row.get('fi', [])
        if row.get('agg'):
            if fo and (fo[0] or fu[0] or fi[0]):
                seen.add((row.get('k'), row.get('s'), row.get('w'), row.get('f'), row.get('r'), row.get('o'), row.get('carrier'), row.get('route'), 'agg'))
        else:
            for i in range(min(n, len(fo))):
                if fo[i] or fu[i] or fi[i]:
                    v = row['v'][i]
                    seen.add((row.get('s'), row.get('w'), row.get('f'), row.get('r'), row.get('o'), tuple(v['m']), v['e']))
        if len(chk.samples) < 5 and n:
            s = {k: row[k] for k in row if k not in ('v', 'c', 'rb', 'fo', 'fu', 'fi')}
            s['first_elements'] = {'v': row.get('v', [])[:3], 'c': row.get('c', [])[:3]}
            chk.samples.append(s)
    chk.evaluations += ev
    chk.nontrivial += len(seen)
    chk.rule = ('cases: every (configuration, input) of the TLC small world executed on the real code through the carriers/routes of the '
                'property, plus seeded boundary-directed wide-format stores; non-trivial = distinct (format, modes, input) whose write raised '
                'overflow/underflow/inaccuracy (i.e. rounding or range handling actually happened), or an array write that did, or a raised error')
