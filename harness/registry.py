"""Which module decides which property."""
COMMON_ASSUMPTIONS = [
    'TLC 1.8 evaluates the TLA+ operators correctly; BigInt limb arithmetic is checked against native Int by MC_BigInt (B=2,4,8 exhaustive on -70..70, B=2^15 sampled)',
    'exhaustive only on the small world stated in coverage; wider formats are boundary-directed + seeded random samples judged by TLC',
    'Python converts numbers to/from the wire format (limb arrays, exact dyadics) and executes the real code; it never computes an expected value',
    'floats inside the stated domains are exact dyadics (no IEEE rounding is modelled)',
]

_STORE_NOTE = ('Trusted: TLC/SANY, the JVM, the TLA+ modules BigInt/FxpMath (cross-checked: BigInt vs native Int, FxpAlgo vs FxpMath, closed-form '
               'relations vs quantified forms), NumPy for building the input carriers, and the observation code in harness/x_store.py (reads val, '
               'status, get_val of the real objects). Exhaustive for n_word<=4 (quick) / <=6 (thorough); 52-bit and wider formats are sampled.')
PROPS = {
    'C01': {'module': 'store',
            'technique': 'TLC exhaustive small-world model check (MC_Store: FxpAlgo.StoreAlgo = FxpMath.Quantize) + replay of every generated case on the real code through all carriers/routes + TLC trace validation (JudgeBody over BigInt) of seeded wide-format stores',
            'level_text': 'TLC enumerates every configuration (signed, n_word<=W, -8<=n_frac<=n_word+8, 5 roundings x 2 overflows) and, per configuration, every quarter-LSB input over three times the range; each case is executed on the real Fxp through every carrier and route the property names and every observation (code, read-back) is judged by the TLA+ Quantize; formats up to 52 bits and huge floats are sampled with boundary-directed values and judged the same way.',
            'level_note': _STORE_NOTE},
    'C03': {'module': 'store',
            'technique': 'TLC exhaustive model check of wrap (unique congruent representative = mask-and-sign-extend; shift invariance) + replay of the wrap small world incl. inputs shifted by multiples of the modulus + TLC trace validation of 64..256-bit Python-integer stores',
            'level_text': 'WrapUnique/ShiftInvariant are invariants of MC_Store over all codes of all formats with n_word<=W; every wrap case and its shifted copies are executed on the real code and judged by relation (in range and congruent to the rounded input modulo 2^n_word) without the reference quantizer; n_word 64..256 with integers up to 2^1000 are sampled.',
            'level_note': _STORE_NOTE},
    'C05': {'module': 'store',
            'technique': 'TLC exhaustive model check of quantizer-free rounding relations (quantified over all representable codes) + TLC trace validation of observed (input, stored) pairs from the real code against the closed-form relations',
            'level_text': 'The direction / half-LSB / ties-to-even / <1 LSB / idempotence / monotonicity relations are stated over ALL representable codes in MC_Store (so they guard the oracle of C01) and shown equivalent to closed forms; the closed forms are then evaluated by TLC on every (input, stored code) pair observed from the real implementation on the small world and on sampled 52-bit formats, never calling the quantizer.',
            'level_note': _STORE_NOTE},
}

_AR_NOTE = ('Trusted: TLC/SANY, the JVM, BigInt/FxpMath/FxpOps (cross-checked: BigInt vs native Int; raw-path and repr-path transcriptions in FxpAlgo vs '
            '"exact result quantized once" in FxpOps on every code pair of every small format pair), NumPy for building operand arrays, harness/x_arith.py '
            '(reads val, dtype sizes, status, config of the returned object). Operands are built from integer codes (raw=True) so their values are exact.')
PROPS.update({
    'C07': {'module': 'arith',
            'technique': 'TLC exhaustive model check over all pairs of small formats and all code pairs (MC_Arith: raw-path algorithm exact under the documented growth rules, tightness, monotonicity) + replay of every pair on the real code (3 routes, raw/repr, scalars, broadcasting) + TLC trace validation of seeded wide formats and random expression trees',
            'level_text': 'For every pair of formats with n_word<=W (any signedness mix, n_frac -1..n_word+1) TLC checks on every pair of codes that the transcribed raw path returns the exact result in the growth-rule format without flags (unsigned negative difference = quantized); the same pairs are executed on the real Fxp through operators, fxpmath.add/sub/mul and np.add/subtract/multiply and judged by TLC (format = growth rule, value exact by dyadic comparison, no flag); formats up to 40 bits with result word <=53 and expression trees are sampled at extreme/near-extreme/random codes.',
            'level_note': _AR_NOTE},
    'C08': {'module': 'arith',
            'technique': 'TLC exhaustive model check (raw path = repr path = exact result quantized once, for all policies x 10 modes) + replay on the real code incl. out/out_like/constants/unary + TLC trace validation of seeded formats up to 12 bits',
            'level_text': 'For all operand format pairs with n_word<=W, n_int>=0, all sizing policies, all 10 governing mode combinations and every code pair TLC checks that both calculation methods equal the exact result quantized once; on the real code the result format, the configuration the result carries (first operand / out / out_like), identity with out, every code and the overflow/underflow flags are judged by TLC for operators and functions, raw and repr, Python-number constants on either side under op_input_size same/best, and unary minus/plus/abs.',
            'level_note': _AR_NOTE},
    'C09': {'module': 'arith',
            'technique': 'TLC exhaustive model check of the pre-scaled floor division against cross-multiplied neighbour/floor/modulo relations + replay of every code pair (divisor != 0) on the real code, raw and repr, 3 roundings + TLC trace validation of seeded formats with result word <=53',
            'level_text': 'For all pairs of formats with n_word<=W (n_frac 0..n_word) and every code pair with non-zero divisor TLC checks that the transcribed algorithms satisfy: quotient is the floor or ceiling neighbour on the result grid and never overflows the optimal format, x//y is floor(x/y), x%y = x - y*floor(x/y) with the divisor sign; every pair is executed on the real code (/, //, %; raw and repr; trunc/around/floor) and the relations plus (x//y)*y + x%y = x are evaluated by TLC on the observed codes.',
            'level_note': _AR_NOTE},
})
PROPS['C19'] = {'module': 'wide',
    'technique': 'TLC model check of BigInt against native integers and of the growth-rule lemma + TLC trace validation over BigInt of seeded optimal + - * on operand words 2..70 (results to 256 bits) and of Python integers up to 2^1000 stored into 1..52-bit formats',
    'level_text': 'The property lives on 53..256-bit quantities, beyond an exhaustive small world: TLC checks the limb arithmetic used by the judge against native integers and re-checks the exact/never-overflows lemma on all small format pairs; then every seeded event of the real code (extreme, near-extreme and random operand codes; scalars, arrays, expression chains; big Python integers through constructor/call/set_val/indexed assignment) is judged by TLC: result format = growth rule, value exact by limb comparison, no flag; stored integer = OVERFLOW(ROUND(v*2^n_frac)) with exact flags.',
    'level_note': _AR_NOTE + ' Sampling only (no exhaustive world at these widths); the dtype decision rules are not modelled as such.'}
PROPS['C10'] = {'module': 'conv',
    'technique': 'TLC exhaustive model check over all (source, destination) small format pairs, all codes, 10 modes (raw-shift-and-store = exact value quantized; preserved when representable) + replay of every pair through 11 conversion routes on the real code + TLC trace validation of seeded chains of up to 6 conversions on formats up to 52 bits',
    'level_text': 'For every pair of formats with n_word<=W and every source code TLC checks that the implementation route (shift the raw code by the fraction-length difference, store raw with rounding) equals the exact source value quantized into the destination under the destination modes; every pair is executed on the real code by resize (sizes / dtype string), like=, like(), constructor from Fxp (sizes / dtype), call, set_val, equal(), element-wise and slice indexed assignment, for scalars, 1-D and 2-D arrays, and TLC judges destination format, shape, codes, value preservation and that the source is unchanged.',
    'level_note': _AR_NOTE}
PROPS['C06'] = {'module': 'infer',
    'technique': 'TLC exhaustive model check of the transcribed _init_size/set_best_sizes loops against the minimal exact format (all arrays of <=2 dyadics, 3 signedness settings, 5 variants of given sizes, cap scaled to 8) + replay of every configuration on the real constructor (n_word_max=8) + TLC trace validation of seeded dyadics up to 2^40/2^-20 and capped random doubles',
    'level_text': 'FxpBest transcribes the fraction-search loop, the msb integer-bit loop and the caps; TLC checks for every array of up to two values k/2^f (|k|<=KMAX, f<=FMAX), default/signed/unsigned and each variant of unspecified sizes that it yields the minimal format (minimality also stated directly by quantifying over all smaller formats), never above the cap; every configuration is executed on the real constructor and TLC judges format, exactness of every stored value, absence of flags, and the capped branch (error < 1 LSB, flagged); dyadics to 2^40 with f<=20, arrays <=5, boundary values +-2^k and 2^k-LSB, and random doubles with the real cap 64 are sampled.',
    'level_note': _AR_NOTE + ' The significand of the small world is scaled with the cap (5-bit significands for cap 8) as explained in DESIGN.md section 5 C06.'}
_TX_NOTE = ('Trusted: TLC/SANY, the JVM, FxpText (images) and FxpParse (transcribed parsers; MC_Text checks Parse(Render(code)) = code and '
            'ParseFmt(FmtString(format)) = format), Python only maps str <-> list of code points. Strings fed back are the ones the real code rendered.')
PROPS['C11'] = {'module': 'text',
    'technique': 'TLC exhaustive model check on character-code sequences (image length/digits, transcribed parsers restore every code) + replay of every code of every small format through bin/hex/base_repr and all parse-back routes on the real code + TLC trace validation of boundary/random codes up to 256 bits',
    'level_text': 'For every code of every format with 2<=n_word<=W, 0<=n_frac<=n_word TLC checks the two-complement image, the hex image, the sign-magnitude numerals and that the transcribed strbin2int/strbin2float/strhex2int restore the code in value and raw mode; on the real code every rendering (scalars, 1-D, 2-D; with/without point and prefix; base_repr in 5 bases) is compared by TLC with the image, and every rendered string is fed back by constructor, call, set_val, from_bin (method and function) in value and raw mode and TLC checks the restored codes, format and shape; n_word up to 256 is sampled at boundary and random codes.',
    'level_note': _TX_NOTE}
PROPS['C12'] = {'module': 'text',
    'technique': 'TLC exhaustive model check of both dtype grammars against the renderers for n_word<=WD, -8<=n_frac<=n_word+8, complex, all spellings and cases + replay on the real code (Fxp(dtype=), resize(dtype=), get_dtype under both defaults, fxp_sum(dtype=)/get_sizes_from_dtype) + TLC trace validation up to 256 bits',
    'level_text': 'TLC generates every spelling (fxp with/without -complex, upper/lower case, Q/UQ and S/U) of every small format and checks the transcribed _parseformatstr maps it back; on the real code TLC compares x.dtype and get_dtype(notation) under both configured defaults with the specified string, and the format obtained from Fxp(dtype=s), resize(dtype=s), Fxp(dtype=x.dtype) and get_sizes_from_dtype(s) with the original; n_word up to 256 is sampled through the render-and-feed-back route.',
    'level_note': _TX_NOTE}
PROPS['C13'] = {'module': 'bits',
    'technique': 'TLC exhaustive model check (transcribed invert/and/or/xor = pointwise operation on the n_word-bit patterns, masks incl. negative/oversized, ~~x=x, ~x=-x-LSB, De Morgan) over all code pairs + replay on the real code + TLC trace validation at 16..128 bits over BigInt bit patterns',
    'level_text': 'For every pair of same-word formats with n_word<=W (every signedness combination, n_frac 0..n_word) and every code pair TLC checks the transcribed operators against pointwise NOT/AND/OR/XOR of the two-complement bit sequences and the derived laws; every pair is executed on the real code (array x with scalar Fxp y, scalar with scalar, integer masks on either side incl. negative and oversized ones, rejection of different word lengths) and TLC compares result format and bit pattern; n_word in {16,31,32,33,63,64,65,100,128} is sampled at boundary/random codes.',
    'level_note': _AR_NOTE}
PROPS['C14'] = {'module': 'bits',
    'technique': 'TLC exhaustive model check of the transcribed shift algorithms (min_pow2-driven fraction growth, magnitude-driven word growth, arithmetic right shift, clamp-or-wrap left shift) for all codes, counts 0..n_word+3 and 2-element arrays + replay on the real code + TLC trace validation to 32 bits',
    'level_text': 'For all codes of all formats with n_word<=W, n_frac in {0, n_word/2}, counts 0..n_word+3 and arrays of up to two codes TLC checks that expand mode is lossless (value scaled by exactly 2^+-n) and that trunc/keep mode keeps the format, shifts right arithmetically and shifts left exactly when representable, else clamps or wraps; every case is executed on the real code (scalars, arrays, 3 modes, both overflow settings) and judged by TLC incl. operand untouched; n_word<=32 with n_word+n<=62 is sampled.',
    'level_note': _AR_NOTE}
PROPS['C16'] = {'module': 'misc',
    'technique': 'TLC exhaustive model check (the six relations on exact dyadics form a consistent total order that agrees with cross-multiplied integers; uraw = two-complement image; floor) + replay of all code pairs of all small format pairs on the real code (Fxp-Fxp, Fxp-number both sides, scalars) + TLC trace validation of adjacent values across formats up to 24 bits and conversions for every code of 8-bit formats',
    'level_text': 'For every pair of formats with n_word<=W (n_frac -1..n_word+1) TLC checks trichotomy and the derived relations on every code pair; every pair is compared on the real code with all six operators (arrays and scalars; Fxp against Fxp and against plain numbers on either side, incl. numbers between grid points) and TLC evaluates each boolean against the exact relation; get_val/astype(float)/float()/call, astype(int)/int() (floor), bool(), raw(), uraw() are judged for every code, for raw-built and value-built objects.',
    'level_note': _AR_NOTE}
PROPS['C17'] = {'module': 'misc',
    'technique': 'TLC exhaustive model check of the affine wrapper (read(store(u*s+b)) and direction flip for negative scale; limits bracket) over formats x 10 modes x 32 scales x 8 biases + replay on the real code (scalars, arrays, 3 routes, inference) + TLC trace validation to 16 bits',
    'level_text': 'TLC enumerates every (format n_word<=W, rounding, overflow, scale k/2^j with k in +-{1,3,5,7}, bias) and every quarter-LSB grid value u; the harness stores v = u*s + b (all intermediates exact doubles; the witness u*s+b = v is re-checked by TLC) and TLC judges code = Quantize(u), read = s*code*2^-f + b, flags as for the unscaled value, upper/lower/precision through the same affine map, and that inference sizes the transformed value.',
    'level_note': _AR_NOTE + ' Quick tier executes a rotating quarter of the configurations (all of them are model-checked); thorough executes all.'}
PROPS['C15'] = {'module': 'reduce',
    'technique': 'TLC exhaustive model check of the growth rules for sums / products / dot over every assignment of the extremes {Lo,Hi}^n (n<=NMAX, n_word<=3) + replay on the real code of all 12 functions through numpy and method routes, axis None and every axis, shapes to 3x3 / length 8 + TLC trace validation (folds over the element matrix in TLA+) of formats to 12 bits + lemma CumProdFits (every partial product of cumprod fits the repaired rule, formats with negative / oversized fraction lengths) and a negative instance for the old rule that TLC must reject',
    'level_text': 'TLC checks that with ceil(log2 n) extra word bits for sums, n*n_word bits for products and both for dot the exact result of every {Lo,Hi}^n vector fits (and that the sum rule is tight); the harness executes sum, cumsum, prod, cumprod, max, min, sort, clip, transpose, diagonal, trace, dot and matmul on the real arrays through np.f(x) and x.f(), and TLC recomputes each result as a fold over the matrix of integer codes and compares value-exactly, with shape, returned type and absence of overflow/underflow.',
    'level_note': _AR_NOTE}
_SYS_NOTE = ('Trusted: TLC/SANY, the JVM, FxpSystem/FxpTrace (the heap model: sharing kept as partitions of positions/objects), FxpN, and the replayer '
             'harness/x_system.py which maps action records to public calls and reads public attributes. Small-scope: 3-4 objects, arrays of 2 elements, 2-3 small '
             'formats, boundary inputs; depth-bounded exhaustive exploration plus simulated longer behaviours.')
PROPS['C20'] = {'module': 'system',
    'technique': 'TLC model check of the heap state machine FxpSystem (invariants NoSharedConfig/ViewsOnly, action properties NonInterference, ViewWriteThrough, BadConfigRejected, SourceUnchanged; negative instance with shallow like() must be rejected) + replay of the complete transition cover and of simulated behaviours on real objects + TLC trace validation (FxpTrace) of every object after every call + TLC model check and replay of the extension instance MC_System_X (bitwise operators and masks, expanding shifts, reductions, constants, in-place operators, raw stores; action properties ShiftExact, ReduceExact, BitKeepsFormat, IOpRebinds) with a vacuity guard on the action cover',
    'level_text': 'All histories of the bounded instance (objects derived by constructor, like=, like(), deepcopy, indexing, arithmetic, negation, conversion; then value writes, indexed writes through views, config changes incl. invalid values, flag-raising writes, reset) are explored by TLC; each transition yields a behaviour that is executed on real Fxp objects, and after EVERY call the format, codes, config and status of EVERY live object are compared by TLC with the model - a leak from one object into another, a missing write-through or a mutated input container is a named verdict.',
    'level_note': _SYS_NOTE}
PROPS['C04'] = {'module': 'system',
    'technique': 'TLC model check of FxpSystem (action properties Sticky, FlagIff, ResetLeavesRest, InaccPropagates over writes/resets/arithmetic with boundary inputs) + replay of the transition cover with a recorder callback on every object + TLC trace validation of flags and callback sequences after every call + TLC model check and replay of the extension instance MC_System_X (bitwise operators and masks, expanding shifts, reductions, constants, in-place operators, raw stores; action properties ShiftExact, ReduceExact, BitKeepsFormat, IOpRebinds) with a vacuity guard on the action cover',
    'level_text': 'Histories of scalar-array writes, indexed writes, resets, config changes, conversions and arithmetic on inputs at the format bounds (max exact, above max, below min, tie) are explored exhaustively to the depth bound; on the real objects every flag of every object and the exact sequence of callbacks fired by each write are compared by TLC with the model after every call.',
    'level_note': _SYS_NOTE + ' Interpretation (DESIGN 5, C04): writes are x(v)/set_val/x[i]=v/equal; arithmetic = binary operators; unary/shift propagation is reported as extra conformance, not judged.'}
PROPS['C02'] = {'module': 'system',
    'technique': 'TLC model check of FxpSystem (invariant WellFormed on every reachable object) + replay of the transition cover + TLC trace validation where range, n_int, upper/lower/precision and the dtype string are evaluated on the attributes the REAL objects report after every call; saturation side checked in the store world (MC_Store SatSide) + TLC model check and replay of the extension instance MC_System_X (bitwise operators and masks, expanding shifts, reductions, constants, in-place operators, raw stores; action properties ShiftExact, ReduceExact, BitKeepsFormat, IOpRebinds) with a vacuity guard on the action cover',
    'level_text': 'Every object reachable by construct / set / indexed set / resize / like / arithmetic / negation / indexing histories of the bounded instance is checked by TLC for codes in range; on real objects TLC evaluates after every call, for every live object, codes within the range of its own format, n_int = n_word - n_frac - sign, upper/lower/precision = max/min code and one LSB, and dtype spelling, directly on the observed attributes.',
    'level_note': _SYS_NOTE}
PROPS['C18'] = {'module': 'ext',
    'technique': 'TLC model checks (BigInt vs native Int; native vs BigInt instantiation of the functor; store/wrap, bitwise and string operators at small widths) + TLC trace validation over BigInt of seeded 64..256-bit events of the real code: integer codes (raw) and integer values by every route, bin/hex strings in raw mode, bin()/hex(), bitwise operators, and the extended-precision indicator along object histories',
    'level_text': 'At the widths of the property there is no exhaustive world; TLC establishes that the limb arithmetic is integer arithmetic, that the functor instantiations agree and that the operators are right at small widths, and then judges every recorded event over BigInt: n_word in {64,65,66,72,96,127,128,129,200,256}, n_frac in {0,1,n_word/2,n_word-1,n_word}, both signs and overflow modes; codes at and just beyond both bounds, multiples of the modulus, random codes up to 4x the word length (stored code = Quantize, flags exact); rendered strings fed back in raw mode; bit patterns of ~ & | ^; and the indicator = (n_word >= 64) after construction, reset, resize across the threshold in both directions, like=, like(), deepcopy, indexing and arithmetic, incl. the negative side (1..63 bits).',
    'level_note': _AR_NOTE + ' Sampling only at these widths.'}

NOT_APPLICABLE = {}

HOOKS = {
    'guard': 'FXPMATH_VERIF_TRACE',
    'enable': 'the drivers need no hook: they import /repo\'s working tree (sys.path[0]=/repo) and observe public attributes. The hook is used to record the '
              'repository\'s own test-suite as a trace: harness/suite.py runs pytest on /repo/tests with FXPMATH_VERIF_TRACE=<ndjson file>; fxpmath/__init__.py then '
              'calls fxpmath/_verif.install(), which wraps Fxp.set_val and functions._function_over_two_vars and appends one observation row per top-level call',
    'baseline_off_cmd': 'cd /repo && /venv/bin/python -m pytest -ra -q -p no:cacheprovider --timeout=900 --continue-on-collection-errors',
    'source_commits': ['2c9bec1', 'b27a23e'],
    'add_only': True,
}

ENGINES = [
    {'name': 'tlc-exhaustive', 'path': 'spec/mc/MC_*.tla', 'serves_properties': sorted(PROPS),
     'kind_free_text': 'TLC breadth-first model checking of the small worlds (algorithm-shaped FxpAlgo against property-level FxpMath) and generation of case rows'},
    {'name': 'tlc-trace-validation', 'path': 'spec/JudgeBody.tla (JudgeB over BigInt, JudgeN native)', 'serves_properties': sorted(PROPS),
     'kind_free_text': 'total-verdict validation of observation rows recorded from the real implementation; one TLC state per row'},
    {'name': 'replayer', 'path': 'harness/', 'serves_properties': sorted(PROPS),
     'kind_free_text': 'executes TLC-generated cases and seeded wide-format programs on /repo\'s working tree and records observations (never computes expected values)'},
]

NOTES = ('All checks: ./check <id> --tier quick|thorough [--seed N]; exit 0 held / 1 VIOLATION / 2 machinery failure. known_findings.json lists recorded '
         'defects (open) and repaired ones (fixed). See DESIGN.md.')


def _ext(t):
    return ((-(1 << (t['w'] - 1)), (1 << (t['w'] - 1)) - 1) if t['s'] else (0, (1 << t['w']) - 1))


def default_account(chk, obs):
    """evaluations = judged elements.  distinct non-trivial cases, measured from the observations only (no oracle):
    store rows - distinct (format, modes, input) whose write raised a flag; arithmetic/division rows - distinct (op, formats,
    operand codes) with an operand at an extreme code of its format or a flagged result; error rows - distinct (route, carrier, error)."""
    from .common import unwint
    ev = 0
    seen = set()
    for row in obs:
        k = row.get('k')
        if k == 'error':
            ev += 1
            seen.add(('err', row.get('route'), row.get('carrier'), row.get('err'), row.get('op')))
            continue
        if k == 'store':
            n = len(row.get('v', []))
            ev += n
            fo, fu, fi = row.get('fo', []), row.get('fu', []), row.get('fi', [])
            if row.get('agg'):
                if fo and (fo[0] or fu[0] or fi[0]):
                    seen.add((k, row.get('s'), row.get('w'), row.get('f'), row.get('r'), row.get('o'), row.get('carrier'), row.get('route'), 'agg'))
            else:
                for i in range(min(n, len(fo))):
                    if fo[i] or fu[i] or fi[i]:
                        v = row['v'][i]
                        seen.add((row.get('s'), row.get('w'), row.get('f'), row.get('r'), row.get('o'), tuple(v['m']), v['e']))
        elif k in ('arith', 'div', 'arithc', 'unary', 'conv', 'bitwise', 'shift', 'cmp'):
            cx = row.get('cx', row.get('cs', []))
            cy = row.get('cy', cx)
            if k == 'bitwise':
                cy = [cy] * len(cx)
            elif k == 'cmp' and not cy:
                cy = cx
            elif k == 'shift':
                cy = cx
            ev += len(cx)
            ex, ey = _ext(row['x']), _ext(row.get('y', row['x']))
            key = (k, row.get('op'), row['x']['s'], row['x']['w'], row['x']['f'], row.get('y', {}).get('s'), row.get('y', {}).get('w'), row.get('y', {}).get('f'))
            for a, b in zip(cx, cy):
                ia, ib = unwint(a), unwint(b)
                if ia in ex or ib in ey:
                    seen.add(key + (ia, ib))
        elif k == 'scaled':
            n = len(row.get('u', []))
            ev += n
            fo, fu, fi = row.get('fo', []), row.get('fu', []), row.get('fi', [])
            if row.get('agg'):
                if fo and (fo[0] or fu[0] or fi[0]):
                    seen.add((k, row['s'], row['w'], row['f'], row['r'], row['o'], str(row['sc']), str(row['b']), 'agg'))
            else:
                for i in range(min(n, len(fo))):
                    if fo[i] or fu[i] or fi[i]:
                        seen.add((k, row['s'], row['w'], row['f'], row['r'], row['o'], str(row['sc']), str(row['b']), str(row['u'][i])))
        elif k == 'numconv':
            cs = [unwint(c) for c in row.get('c', [])]
            ev += len(cs)
            for c in cs:
                if c < 0 or row['f'] < 0:
                    seen.add((k, row['route'], row['s'], row['w'], row['f'], c))
        elif k == 'reduce':
            cs = [unwint(c) for r_ in row.get('rows', []) for c in r_]
            ev += max(1, len(cs))
            lo, hi = _ext(row['x'])
            if cs and all(c in (lo, hi) for c in cs):
                seen.add((k, row['fn'], row['route'], row['axis'], row['x']['s'], row['x']['w'], row['x']['f'], tuple(cs), str(row.get('yrows'))))
        elif k == 'wf':
            ev += len(row.get('objs', []))
            for o_ in row.get('objs', []):
                lo_, hi_ = _ext(o_['fmt']) if o_['fmt']['w'] >= 1 else (0, 0)
                if any(unwint(c) in (lo_, hi_) for c in o_['codes']):
                    seen.add((k, o_['how'], o_['fmt']['s'], o_['fmt']['w'], o_['fmt']['f'], str(o_['codes'][:4])))
        elif k == 'extflag':
            ev += len(row.get('obs', []))
            for o_ in row.get('obs', []):
                if o_['w'] in (63, 64, 65):
                    seen.add((k, o_['w'], o_['how']))
        elif k in ('render', 'parse'):
            cs = [unwint(c) for c in row.get('c', [])]
            ev += len(cs)
            lo, hi = _ext(row)
            for c in cs:
                if c in (lo, hi, -1):
                    seen.add((k, row.get('kind'), row.get('route'), row.get('raw'), row['s'], row['w'], row['f'], c))
        elif k in ('dtype', 'dtypeparse'):
            ev += 1
            if row['f'] < 0 or row['f'] > row['w'] or row.get('cplx') or row['w'] >= 64:
                seen.add((k, row.get('route'), row.get('spelling'), row['s'], row['w'], row['f'], row.get('cplx')))
        elif k == 'infer':
            ev += len(row.get('v', []))
            z = row.get('z', {})
            if z and z.get('w', 0) > 0:
                lo, hi = _ext(z)
                cs = [unwint(c) for c in row.get('c', [])]
                if any(c in (lo, hi) for c in cs) or z.get('w') == row.get('cap'):
                    seen.add((k, row.get('sa'), row.get('given'), row.get('nw'), row.get('nf'), row.get('ni'), tuple(cs), z.get('w'), z.get('f')))
        else:
            ev += max(1, len(row.get('v', [])) if isinstance(row.get('v'), list) else 1)
            nt = row.get('nt')
            if nt:
                for x in nt:
                    seen.add((k, str(x)))
        if len(chk.samples) < 5:
            sm = {kk: row[kk] for kk in row if not isinstance(row[kk], list) or len(row[kk]) <= 3}
            for kk in ('v', 'c', 'cx', 'cy', 'cz'):
                if isinstance(row.get(kk), list):
                    sm[kk + '_first'] = row[kk][:3]
            chk.samples.append(sm)
    chk.evaluations += ev
    chk.nontrivial += len(seen)
    chk.rule = ('cases = every (configuration, input/operand codes) of the TLC small world executed on the real code plus seeded '
                'boundary-directed wide-format cases; non-trivial (measured from observations, distinct): stores whose write raised '
                'overflow/underflow/inaccuracy; arithmetic/division cases with an operand at an extreme code of its format; reductions whose every element is at an extreme of the format; string cases at the most negative / maximum / all-ones code; dtype cases with negative or oversized n_frac, complex or >=64-bit words; inference cases whose inferred format is at the cap or holds an extreme code; other kinds: the '
                'boundary tags the executor attached (row.nt); raised errors by (route, carrier, type)')
