"""Executing comparisons / numeric conversions (C16) and scaled objects (C17) on the real implementation."""
import fractions
from . import common
from .common import wint, wdy
from .x_arith import mk, fmt_of, mk_hist

F = fractions.Fraction
OPS = {'lt': lambda a, b: a < b, 'le': lambda a, b: a <= b, 'eq': lambda a, b: a == b, 'ne': lambda a, b: a != b,
       'gt': lambda a, b: a > b, 'ge': lambda a, b: a >= b}


def _bools(np, r, n):
    a = np.asarray(r)
    if a.dtype != bool and a.dtype != np.bool_:
        raise TypeError('comparison returned %s' % a.dtype)
    out = [bool(v) for v in a.ravel().tolist()]
    if len(out) != n:
        raise ValueError('comparison returned %d results for %d pairs' % (len(out), n))
    return out


def observe_cmp(fx, np, props, tx, cxs, ty=None, cys=None, nums=None, side='right', scalar=False, hist=None, numtype=None):
    """x <op> y for the six operators.  y: Fxp of format ty with codes cys, or plain numbers (Fractions) on the given side"""
    row = {'k': 'cmp', 'p': list(props), 'x': dict(zip('swf', (bool(tx[0]), tx[1], tx[2]))),
           'y': dict(zip('swf', (bool(ty[0]), ty[1], ty[2]))) if ty else {'s': False, 'w': 0, 'f': 0}, 'ykind': 'fxp' if ty else 'num',
           'side': side, 'route': 'fxp-fxp' if ty else 'fxp-num-' + side, 'carrier': 'scalar' if scalar else 'array'}
    try:
        X = mk_hist(fx, np, tx, cxs[0] if scalar else cxs, None, mode=hist) if hist else mk(fx, np, tx, cxs[0] if scalar else cxs)
        if hist:
            row['route'] += '/hist-' + hist
        n = 1 if scalar else len(cxs)
        if ty:
            Y = mk_hist(fx, np, ty, cys[0] if scalar else cys, None, mode=hist) if hist else mk(fx, np, ty, cys[0] if scalar else cys)
            yv = []
        else:
            vals = [int(v) if v.denominator == 1 else float(v) for v in nums]
            # a plain number on the LEFT is a Python scalar (reflected operator); an ndarray on the left would go through
            # NumPy's ufunc dispatch, which C16 does not talk about
            Y = vals[0] if (scalar or side == 'left') else np.array([float(v) for v in nums])
            if numtype is not None:      # the plain number carried by a NumPy scalar / array of a given dtype (exactly representable there)
                tp = getattr(np, numtype)
                Y = tp(vals[0]) if (scalar or side == 'left') else np.array(vals, dtype=tp)
                row['route'] += '/' + numtype
            yv = [wdy(v) for v in (nums[:1] if scalar else (nums if side == 'right' else [nums[0]] * len(nums)))]
        res = {}
        for op, fn in OPS.items():
            res[op] = _bools(np, fn(X, Y) if side == 'right' else fn(Y, X), n)
        return dict(row, cx=[wint(c) for c in (cxs[:1] if scalar else cxs)], cy=[wint(c) for c in ((cys[:1] if scalar else cys) if ty else [])],
                    yv=yv, v=[0] * n, **res)
    except Exception as ex:
        return dict(row, k='error', err=type(ex).__name__, msg=str(ex)[:200])


def observe_numconv(fx, np, props, t, codes, byvalue=False, hist=None):
    from .x_conv import mkv
    row = {'k': 'numconv', 'p': list(props), 's': bool(t[0]), 'w': t[1], 'f': t[2], 'route': 'conv-' + ('value' if byvalue else 'raw'),
           'carrier': 'array'}
    try:
        X = mk_hist(fx, np, t, codes, None, mode=hist) if hist else (mkv if byvalue else mk)(fx, np, t, codes)
        if hist:
            row['route'] += '/hist-' + hist
        gv = np.asarray(X.get_val()).ravel().tolist()
        af = np.asarray(X.astype(float)).ravel().tolist()
        ai = np.asarray(X.astype(int)).ravel().tolist()
        raw = np.asarray(X.raw()).ravel().tolist()
        # the same conversions asked for in other spellings: NumPy integer / float types, and get_val with index= / item= on a 2-D object
        ai_np = np.asarray(X.astype([np.int64, 'int64', np.dtype('int64'), np.int32][len(codes) % 4])).ravel().tolist()
        af_np = np.asarray(X.astype([np.float64, 'float64', np.float32][len(codes) % 3] if t[1] <= 20 else np.float64)).ravel().tolist()
        n2 = len(codes) - len(codes) % 2
        if n2 >= 4 and not hist:
            X2 = (mkv if byvalue else mk)(fx, np, t, codes[:n2], (2, n2 // 2))
            gv_row = np.asarray(X2.get_val(index=1)).ravel().tolist()
            gv_item = [np.asarray(X2.get_val(item=k)).ravel().tolist()[0] for k in range(n2)]
            gv_item2 = [np.asarray(X2.item(k // (n2 // 2), k % (n2 // 2))).ravel().tolist()[0] for k in range(n2)]
        else:
            gv_row, gv_item, gv_item2, n2 = [], [], [], 0
        uraw = np.asarray(X.uraw()).ravel().tolist()
        sc = []
        for c in codes:                         # scalar conversions: float(), int(), bool(), x()
            x = mk_hist(fx, np, t, c, None, mode=hist) if hist else (mkv if byvalue else mk)(fx, np, t, c)
            sc.append({'fl': wdy(float(x)), 'ii': wint(int(x)), 'bo': bool(x), 'call': wdy(np.asarray(x()).ravel()[0].item() if hasattr(np.asarray(x()).ravel()[0], 'item') else np.asarray(x()).ravel()[0])})
        for name, seq in (('ai', ai), ('raw', raw), ('uraw', uraw)):
            for v in seq:
                if isinstance(v, float) and not v.is_integer():
                    raise ValueError('%s returned non-integer %r' % (name, v))
        row = dict(row, ainp=[wint(int(v)) for v in ai_np], afnp=[wdy(v) for v in af_np], n2=n2, gvrow=[wdy(v) for v in gv_row],
                   gvitem=[wdy(v) for v in gv_item], gvitem2=[wdy(v) for v in gv_item2])
        return dict(row, c=[wint(c) for c in codes], gv=[wdy(v) for v in gv], af=[wdy(v) for v in af], ai=[wint(int(v)) for v in ai],
                    raw=[wint(int(v)) for v in raw], uraw=[wint(int(v)) for v in uraw], sc=sc, v=[0] * len(codes))
    except Exception as ex:
        return dict(row, k='error', err=type(ex).__name__, msg=str(ex)[:200])


def _scaled_followups(fx, np, x):
    """The object stays an affine wrapper around its code after routes that store a CODE (raw store, resize without restoring,
    equal(), bitwise not, indexing): each entry reports the format, codes, reads and limits seen afterwards."""
    out = []

    def snap(how, y):
        fl = common.flags_of(y)
        out.append({'how': how, 'z': fmt_of(y), 'c': [wint(c) for c in common.codes_of(y)],
                    'rb': [wdy(b) for b in np.asarray(y.get_val(), dtype=float).ravel().tolist()],
                    'lim': [wdy(float(y.upper)), wdy(float(y.lower)), wdy(float(y.precision))], 'fl': [fl['o'], fl['u'], fl['i']]})

    def attempt(how, f):
        try:
            snap(how, f())
        except Exception as ex:
            out.append({'how': how + '.raised:' + type(ex).__name__, 'z': fmt_of(x), 'c': [], 'rb': [], 'lim': [wdy(0), wdy(0), wdy(0)], 'fl': [False, False, False]})

    def raw_store():
        y = x.deepcopy(); y.set_val(np.array(y.val).copy() if isinstance(y.val, np.ndarray) else int(y.val), raw=True); return y

    def raw_then_resize():
        y = raw_store(); y.resize(bool(x.signed), int(x.n_word) + 2, int(x.n_frac) + 1); return y

    def resize_norestore():
        y = x.deepcopy(); y.resize(bool(x.signed), int(x.n_word), int(x.n_frac), restore_val=False); return y

    def equal_copy():
        y = x.deepcopy(); y.equal(x.deepcopy()); return y

    def raw_then_value():
        y = raw_store(); y.set_val(x.get_val()); return y
    def resize_widen():          # two more fraction bits and two more word bits: every value is preserved exactly
        y = x.deepcopy(); y.reset(); y.resize(bool(x.signed), int(x.n_word) + 2, int(x.n_frac) + 2); return y

    def setitem_same():          # an element written with the value it already reads as: exact, no flag, codes unchanged
        y = x.deepcopy(); y.reset()
        v0 = np.asarray(y.get_val(), dtype=float).ravel()[0]
        if np.ndim(y.val) >= 1:
            y[0] = float(v0)
        else:
            y.set_val(float(v0))
        return y
    def _reject(y):
        # calls that are REJECTED with an error (index out of range, not a number, a bit string longer than the word, a container
        # holding None): the object must be what it was
        n = int(np.size(y.val))
        v0 = float(np.asarray(y.get_val(), dtype=float).ravel()[0])     # (a value the object holds: a rejected indexed write of an
        #                                                                  out-of-range value raises the flag before it fails)
        # (the input that fails INSIDE the affine transformation comes last: a later call that gets that far would heal the object)
        for bad in (lambda: y.__setitem__(n + 3, v0), lambda: y.set_val(v0, index=n + 3), lambda: y.set_val({'a': 1}),
                    lambda: y('0b' + '1' * (int(y.n_word) + 3)), lambda: y('no number'), lambda: y.set_val([1.0, None])):
            try:
                bad()
            except Exception:
                pass

    def rejected():
        y = x.deepcopy(); y.reset(); _reject(y); return y

    def rejected_resize():
        y = x.deepcopy(); y.reset(); _reject(y); y.resize(bool(x.signed), int(x.n_word) + 2, int(x.n_frac) + 2); return y
    attempt('rejected', rejected)
    attempt('rejected+resize', rejected_resize)
    attempt('resize-widen', resize_widen)
    attempt('setitem-same', setitem_same)
    attempt('raw-store', raw_store)
    attempt('raw-store+resize', raw_then_resize)
    attempt('resize-norestore', resize_norestore)
    attempt('raw-store+value-store', raw_then_value)
    attempt('invert', lambda: ~x)
    if np.ndim(x.val) >= 1 and np.size(x.val) >= 1:
        attempt('getitem', lambda: x[0])
        attempt('slice', lambda: x[::-1])
    return out


def observe_scaled(fx, np, props, t, modes, scale, bias, us, route='ctor', scalar=True, infer=False, npcar=None):
    """scale, bias: Fractions (dyadic).  us: the unscaled grid values u; the user-level inputs are v = u*scale + bias."""
    row = {'k': 'scaled', 'p': list(props), 's': bool(t[0]), 'w': t[1], 'f': t[2], 'r': modes[0], 'o': modes[1], 'sc': wdy(scale),
           'b': wdy(bias), 'route': route, 'carrier': 'scalar' if scalar else 'array', 'agg': not scalar, 'infer': bool(infer)}
    try:
        s_ = int(scale) if scale.denominator == 1 else float(scale)
        b_ = int(bias) if bias.denominator == 1 else float(bias)
        vs = [u * scale + bias for u in us]
        for v in vs:
            if F(float(v)) != v:
                raise AssertionError('driver produced an inexact double')
        kw = dict(rounding=modes[0], overflow=modes[1], scale=s_, bias=b_)
        if bias == 0:
            del kw['bias']          # only the keyword that matters is passed (the other one keeps its default)
        if scale == 1:
            del kw['scale']
        if npcar:           # inputs carried by a (narrow) NumPy dtype: only the inputs that dtype holds exactly
            tp = getattr(np, npcar)

            def fits(v):
                try:
                    with np.errstate(all='ignore'):
                        c = tp(int(v)) if np.dtype(tp).kind in 'iu' else tp(float(v))
                    return (v.denominator == 1 or np.dtype(tp).kind == 'f') and np.isfinite(float(c)) and F(float(c)) == v and \
                        (np.dtype(tp).kind == 'f' or np.iinfo(tp).min <= int(v) <= np.iinfo(tp).max)
                except (OverflowError, ValueError):
                    return False
            keep = [i for i, v in enumerate(vs) if fits(v)]
            us, vs = [us[i] for i in keep], [vs[i] for i in keep]
            if not vs:
                return None
            row['carrier'] = ('scalar:' if scalar else 'array:') + npcar
        cs, rbs, fo, fu, fi, lims, zs = [], [], [], [], [], None, None

        def one(obj):
            if infer:
                x = fx.Fxp(obj, **kw)
            elif route == 'ctor':
                x = fx.Fxp(obj, bool(t[0]), t[1], t[2], **kw)
            elif route == 'like':               # built like= a scaled reference object
                ref = fx.Fxp(None, bool(t[0]), t[1], t[2], **kw)
                x = fx.Fxp(obj, like=ref)
            elif route == 'template':           # built through the class-level template
                fx.Fxp.template = fx.Fxp(None, bool(t[0]), t[1], t[2], **kw)
                try:
                    x = fx.Fxp(obj)
                finally:
                    fx.Fxp.template = None
            elif route == 'call':
                x = fx.Fxp(None, bool(t[0]), t[1], t[2], **kw)
                x.reset()
                x(obj)
            else:
                x = fx.Fxp(None, bool(t[0]), t[1], t[2], **kw)
                x.reset()
                x.set_val(obj)
            return x
        allint = all(v.denominator == 1 for v in vs)
        if scalar:
            for j, v in enumerate(vs):
                x = one(tp(int(v)) if (npcar and np.dtype(tp).kind in 'iu') else tp(float(v)) if npcar else int(v) if (v.denominator == 1 and j % 2 == 0) else float(v))       # NumPy scalar / Python int / float carriers
                c = common.codes_of(x)
                fl = common.flags_of(x)
                cs.append(wint(c[0])); rbs.append(wdy(float(np.asarray(x.get_val(), dtype=float).ravel()[0])))
                fo.append(fl['o']); fu.append(fl['u']); fi.append(fl['i'])
                lims = [wdy(float(x.upper)), wdy(float(x.lower)), wdy(float(x.precision))]
                zs = fmt_of(x)
        else:
            if npcar:
                x = one(np.array([int(v) if np.dtype(tp).kind in 'iu' else float(v) for v in vs], dtype=tp))
            elif allint and len(vs) % 3 == 0:
                x = one([int(v) for v in vs])                    # Python list of ints
            elif allint and len(vs) % 3 == 1:
                x = one(np.array([int(v) for v in vs], dtype=np.int64))
            elif len(vs) % 2 == 0:
                x = one([int(v) if v.denominator == 1 else float(v) for v in vs])
            else:
                x = one(np.array([float(v) for v in vs]))
            fl = common.flags_of(x)
            cs = [wint(c) for c in common.codes_of(x)]
            rbs = [wdy(b) for b in np.asarray(x.get_val(), dtype=float).ravel().tolist()]
            fo, fu, fi = [fl['o']], [fl['u']], [fl['i']]
            lims = [wdy(float(x.upper)), wdy(float(x.lower)), wdy(float(x.precision))]
            zs = fmt_of(x)
        return dict(row, u=[wdy(u) for u in us], v=[wdy(v) for v in vs], c=cs, rb=rbs, fo=fo, fu=fu, fi=fi, lim=lims, z=zs,
                    after=_scaled_followups(fx, np, x))
    except Exception as ex:
        return dict(row, k='error', err=type(ex).__name__, msg=str(ex)[:200])


INDEP_FNS = ['neg', 'abs', 'pos', 'add', 'sub', 'mul', 'truediv', 'floordiv', 'mod', 'add-const', 'mul-const', 'invert', 'and-mask', 'or-mask',
             'xor-mask', 'lshift', 'rshift', 'lshift-trunc', 'rshift-trunc', 'np.sum', 'sum', 'np.cumsum', 'cumsum', 'np.prod', 'prod', 'np.cumprod',
             'np.max', 'max', 'min', 'np.min', 'np.sort', 'np.clip', 'clip', 'np.transpose', 'np.diagonal', 'np.trace', 'np.dot', 'dot', 'mean',
             'np.mean', 'std', 'var', 'np.std', 'np.var', 'np.conj', 'like()', 'like=', 'ctor-from-fxp', 'deepcopy', 'np.add', 'np.multiply',
             'fx.add', 'fx.sub', 'fx.mul', 'np.subtract']


def observe_indep(fx, np, fn, t, codes, shape2d):
    """z1 = f(x); z2 = f(x); mutate z2 and then x: z1 (and, for the first part, x) must not notice (C20)."""
    import operator as _op
    Fxp = fx.Fxp
    s, w, f = t
    row = {'k': 'indep', 'p': ['C20'], 'fn': fn, 'route': 'indep/' + fn, 'carrier': 'array2d' if shape2d else 'array1d', 'v': [0]}
    dt = np.int64 if s else np.uint64

    def snapshot(o):
        st = o.status
        return {'fmt': {'s': bool(o.signed), 'w': int(o.n_word), 'f': int(o.n_frac)},
                'codes': [wint(int(c.real) if isinstance(c, complex) else int(c)) for c in np.asarray(o.val).ravel().tolist()],
                'cfg': {'rnd': str(o.config.rounding), 'ovf': str(o.config.overflow), 'shf': str(o.config.shifting), 'ops': str(o.config.op_sizing)},
                'st': {'o': bool(st.get('overflow')), 'u': bool(st.get('underflow')), 'i': bool(st.get('inaccuracy'))}}
    try:
        a = np.array(codes, dtype=dt)
        if shape2d:
            a = a.reshape(2, len(codes) // 2)
        x = Fxp(a, bool(s), w, f, raw=True, rounding='floor', overflow='wrap')
        y = Fxp(a[..., ::-1].copy(), bool(s), w, f, raw=True)
        lo, hi = float(x.lower), float(x.upper)
        calls = {
            'neg': lambda: -x, 'abs': lambda: abs(x), 'pos': lambda: +x, 'add': lambda: x + y, 'sub': lambda: x - y, 'mul': lambda: x * y,
            'truediv': lambda: x / Fxp(3, True, 4, 0), 'floordiv': lambda: x // Fxp(3, True, 4, 0), 'mod': lambda: x % Fxp(3, True, 4, 0),
            'add-const': lambda: x + 1, 'mul-const': lambda: 2 * x, 'invert': lambda: ~x, 'and-mask': lambda: x & 5, 'or-mask': lambda: 1 | x,
            'xor-mask': lambda: x ^ 3, 'lshift': lambda: x << 1, 'rshift': lambda: x >> 1,
            'lshift-trunc': lambda: _shift(x, 'l'), 'rshift-trunc': lambda: _shift(x, 'r'),
            'np.sum': lambda: np.sum(x, keepdims=True), 'sum': lambda: x.sum(keepdims=True), 'np.cumsum': lambda: np.cumsum(x), 'cumsum': lambda: x.cumsum(),
            'np.prod': lambda: np.prod(x[..., :2], keepdims=True), 'prod': lambda: x[..., :2].prod(keepdims=True), 'np.cumprod': lambda: np.cumprod(x[..., :2]),
            'np.max': lambda: np.max(x, keepdims=True), 'max': lambda: x.max(keepdims=True), 'min': lambda: x.min(keepdims=True), 'np.min': lambda: np.min(x, keepdims=True),
            'np.sort': lambda: np.sort(x), 'np.clip': lambda: np.clip(x, lo / 2, hi / 2), 'clip': lambda: x.clip(lo / 2, hi / 2),
            'np.transpose': lambda: np.transpose(x), 'np.diagonal': lambda: np.diagonal(x) if shape2d else None,
            'np.trace': lambda: np.trace(x) if shape2d else None,
            'np.dot': lambda: np.dot(x, y.T if shape2d else y), 'dot': lambda: x.dot(y.T if shape2d else y),
            'mean': lambda: x.mean(), 'np.mean': lambda: np.mean(x), 'std': lambda: x.std(), 'var': lambda: x.var(), 'np.std': lambda: np.std(x), 'np.var': lambda: np.var(x),
            'np.conj': lambda: np.conj(x), 'like()': lambda: x.like(y), 'like=': lambda: Fxp(x(), like=x), 'ctor-from-fxp': lambda: Fxp(x),
            'deepcopy': lambda: x.deepcopy(), 'np.add': lambda: np.add(x, y), 'np.multiply': lambda: np.multiply(x, y), 'fx.add': lambda: fx.add(x, y),
            'fx.sub': lambda: fx.sub(x, y), 'fx.mul': lambda: fx.mul(x, y), 'np.subtract': lambda: np.subtract(x, y),
        }

        def _shift(o, d):
            o.config.shifting = 'trunc'
            try:
                return (o << 1) if d == 'l' else (o >> 1)
            finally:
                o.config.shifting = 'expand'
        if fn not in calls:
            return None
        try:
            z1 = calls[fn]()
            z2 = calls[fn]()
        except Exception:
            return None                  # (a route that is not available for this operand: independence is not about that)
        if z1 is None or not isinstance(z1, Fxp) or not isinstance(z2, Fxp):
            return None
        z1b, xb = snapshot(z1), snapshot(x)
        same = z1 is z2
        shm = bool(isinstance(z1.val, np.ndarray) and isinstance(x.val, np.ndarray) and np.shares_memory(z1.val, x.val))
        # mutate z2: configuration, a write that raises flags, an element write, reset
        try:
            z2.config.rounding = 'ceil' if z2.config.rounding != 'ceil' else 'around'
            z2.config.overflow = 'saturate' if z2.config.overflow != 'saturate' else 'wrap'
            z2.config.shifting = 'keep'
            z2.config.op_sizing = 'same'
            big = float(2.0 ** (int(z2.n_word) - int(z2.n_frac) + 1)) + float(2.0 ** (-int(z2.n_frac) - 1))
            z2.set_val(np.full(np.shape(z2.val), big) if np.ndim(z2.val) else big)
            if np.ndim(z2.val) >= 1 and np.size(z2.val):
                z2[(0,) * np.ndim(z2.val)] = 0.0
        except Exception:
            pass
        xa = snapshot(x)
        # ... and the operand itself
        try:
            x[(0,) * np.ndim(x.val)] = float(x.upper)
            x.config.rounding = 'trunc'
            x.set_val(np.full(np.shape(x.val), big) if np.ndim(x.val) else big)
        except Exception:
            pass
        return dict(row, same=bool(same), shm=shm, z1b=z1b, z1a=snapshot(z1), xb=xb, xa=xa)
    except Exception as ex:
        return dict(row, k='error', err=type(ex).__name__, msg=str(ex)[:200])
