"""./check Cxx --replay <file>: re-execute a recorded violation on the CURRENT tree and let TLC judge the fresh observation.

The replay file holds the observation row that was judged (and, for histories, the whole behaviour up to the failing call).
Kinds with a re-executor are executed again on /repo's working tree; for the other kinds the recorded observation itself is
re-judged (which shows the verdict, not whether the tree still misbehaves) and that is said in the output."""
import fractions
from . import common
from .common import unwint

F = fractions.Fraction


def _t(d):
    return (d['s'], d['w'], d['f'])


def _dy(j):
    return F(unwint(j['m'])) * F(2) ** j['e']


def reexecute(data):
    row = data['row']
    k = row.get('k')
    fx = common.import_fxpmath()
    import numpy as np
    props = row.get('p', [data['property']])
    if k == 'sys' and data.get('behaviour'):
        from . import x_system
        return x_system.run_behaviour(fx, np, 1, data['behaviour'], data.get('seed', 0)), True
    if k == 'store' or (k == 'error' and 'carrier' in row and 'r' in row and 'v' in row):
        from . import x_store
        raw = row.get('route', '').endswith('/raw')
        route = row['route'].replace('/raw', '')
        vals = [_dy(v) for v in row['v']]
        if raw:
            vals = [v * F(2) ** row['f'] for v in vals]
        o = x_store.observe(fx, np, (row['s'], row['w'], row['f']), (row['r'], row['o']), vals, row['carrier'], route, props,
                            row.get('agg', False), raw=raw)
        return ([o] if o else []), True
    if k == 'arith':
        from . import x_arith
        o = x_arith.observe_arith(fx, np, props, row['op'], _t(row['x']), _t(row['y']), [unwint(c) for c in row['cx']],
                                  [unwint(c) for c in row['cy']], route=row['route'], sizing=row['sizing'], method=row['method'],
                                  xmodes=(row['xm']['r'], row['xm']['o']), ymodes=(row['ym']['r'], row['ym']['o']),
                                  target=None if row['target'] == 'none' else row['target'],
                                  tfmt=_t(row['tf']) if row['target'] != 'none' else None,
                                  tmodes=(row['tm']['r'], row['tm']['o']) if row['target'] != 'none' else None,
                                  scalar=not row['agg'], dirty=row.get('dirty', False))
        return [o], True
    if k == 'div':
        from . import x_arith
        o = x_arith.observe_div(fx, np, props, _t(row['x']), _t(row['y']), [unwint(c) for c in row['cx']], [unwint(c) for c in row['cy']],
                                method=row['method'], rnd=row['r'], route=row['route'], scalar=not row['agg'])
        return [o], True
    if k == 'conv':
        from . import x_conv
        cs = [unwint(c) for c in row['cs']]
        o = x_conv.observe_conv(fx, np, props, _t(row['x']), _t(row['y']), cs[0] if row['carrier'] == 'scalar' else cs, row['route'],
                                (row['sm']['r'], row['sm']['o']), (row['r'], row['o']), byvalue=row.get('src') == 'value')
        return ([o] if o else []), True
    if k == 'shift':
        from . import x_bits
        o = x_bits.observe_shift(fx, np, props, row['dir'], row['mode'], _t(row['x']), [unwint(c) for c in row['cx']], row['n'], ovf=row['o'],
                                 scalar=row['carrier'] == 'scalar')
        return [o], True
    if k == 'bitwise':
        from . import x_bits
        cx = [unwint(c) for c in row['cx']]
        if row['op'] == 'not':
            o = x_bits.observe_bitwise(fx, np, props, 'not', _t(row['x']), cx, scalar=row['carrier'] == 'scalar')
        elif row['ykind'] == 'fxp':
            o = x_bits.observe_bitwise(fx, np, props, row['op'], _t(row['x']), cx, ty=_t(row['y']), cys=unwint(row['cy']), scalar=row['carrier'] == 'scalar')
        else:
            o = x_bits.observe_bitwise(fx, np, props, row['op'], _t(row['x']), cx, mask=unwint(row['cy']), side=row['side'], scalar=row['carrier'] == 'scalar')
        return [o], True
    # no re-executor for this kind: judge the recorded observation again
    return [row], False
