"""Executing value stores on the real implementation, through every carrier and route C01 names.

Nothing here knows what the right answer is: it builds the input object, performs the write on a real
Fxp and logs codes / flags / read-back value as an observation row for Judge.tla.
"""
import fractions, decimal
from . import common
from .common import wint, wdy, frac

F = fractions.Fraction

SCALAR_CARRIERS = ['pyfloat', 'pyint', 'np.float64', 'np.float32', 'np.float16', 'np.int64', 'np.int32', 'np.int16',
                   'np.int8', 'np.uint64', 'np.uint32', 'np.uint16', 'np.uint8', '0d-f64', '0d-i64', 'decstr', 'pybool']
ARRAY_CARRIERS = ['ndarray-f64', 'ndarray-f32', 'ndarray-i64', 'ndarray-i32', 'ndarray-u8', 'list', 'tuple', 'nested-list',
                  'nested-tuple', 'list-decstr', 'ndarray-2d', 'list-np.int8', 'list-np.int16', 'tuple-np.int32', 'list-np.uint8', 'list-np.float16',
                  'tuple-np.float32', 'list-np.uint16', 'list-mixed-np', 'ndarray-2d-F', 'ndarray-2d-T', 'ndarray-3d', 'ndarray-3d-swap',
                  'ndarray-i64-2d-F', 'ndarray-strided']
ROUTES = ['ctor', 'call', 'set_val', 'setitem', 'setitem-slice', 'setitem-2d', 'call-reset', 'recfg', 'setitem-reuse',
          'resize-signed', 'resize-fmt', 'like-signed', 'widen-setitem', 'odd-config', 'config-obj', 'then-reject', 'reject-then', 'like-flagged']
_OTHER = {'trunc': 'around', 'fix': 'ceil', 'floor': 'trunc', 'ceil': 'floor', 'around': 'fix', 'saturate': 'wrap', 'wrap': 'saturate'}


def _exact(np, val, target):
    """is the Fraction val exactly representable by numpy scalar type target?"""
    try:
        if np.issubdtype(target, np.integer):
            if val.denominator != 1:
                return False
            info = np.iinfo(target)
            return info.min <= val.numerator <= info.max
        with np.errstate(all='ignore'):
            x = target(float(val)) if F(float(val)) == val else None
        if x is None or not np.isfinite(x):
            return False
        return F(float(x)) == val
    except (OverflowError, ValueError):
        return False


def decstr(val):
    """decimal literal that denotes the dyadic val exactly"""
    d = decimal.Decimal(val.numerator) / decimal.Decimal(val.denominator) if False else None
    with decimal.localcontext() as ctx:
        ctx.prec = 400
        d = decimal.Decimal(val.numerator) / decimal.Decimal(val.denominator)
    s = format(d, 'f')
    if '.' not in s:
        s += '.0' if val.denominator != 1 else ''
    return s


def make_scalar(np, carrier, val):
    """-> python/numpy object carrying exactly val, or None if this carrier cannot represent it exactly"""
    if carrier == 'pyfloat':
        return float(val) if F(float(val)) == val else None
    if carrier == 'pyint':
        return int(val) if val.denominator == 1 else None
    if carrier == 'pybool':
        return None  # bool is not a numeric carrier the property names
    if carrier.startswith('np.'):
        tp = getattr(np, carrier[3:])
        return tp(float(val)) if (np.issubdtype(tp, np.floating) and _exact(np, val, tp)) else \
            (tp(int(val)) if (np.issubdtype(tp, np.integer) and _exact(np, val, tp)) else None)
    if carrier == '0d-f64':
        return np.array(float(val)) if F(float(val)) == val else None
    if carrier == '0d-i64':
        return np.array(int(val), dtype=np.int64) if _exact(np, val, np.int64) else None
    if carrier == 'decstr':
        # decimal strings go through float(x) / int(x): the literal must denote an exact double
        if F(float(val)) != val:
            return None
        return decstr(val)
    raise ValueError(carrier)


def make_array(np, carrier, vals):
    """-> container carrying exactly vals (list of Fractions), or None"""
    fl = [float(v) for v in vals]
    if any(F(a) != v for a, v in zip(fl, vals)):
        return None
    n = len(vals)
    if carrier == 'ndarray-f64':
        return np.array(fl, dtype=np.float64)
    if carrier == 'ndarray-f32':
        return np.array(fl, dtype=np.float32) if all(_exact(np, v, np.float32) for v in vals) else None
    if carrier in ('ndarray-i64', 'ndarray-i32', 'ndarray-u8', 'ndarray-u16', 'ndarray-u32', 'ndarray-i8', 'ndarray-i16', 'ndarray-u64'):
        tp = {'ndarray-i64': np.int64, 'ndarray-i32': np.int32, 'ndarray-u8': np.uint8, 'ndarray-u16': np.uint16, 'ndarray-u32': np.uint32,
              'ndarray-i8': np.int8, 'ndarray-i16': np.int16, 'ndarray-u64': np.uint64}[carrier]
        return np.array([int(v) for v in vals], dtype=tp) if all(_exact(np, v, tp) for v in vals) else None
    if carrier.startswith(('list-np.', 'tuple-np.')):      # a Python container of NumPy scalars of one (possibly narrow) type
        tp = getattr(np, carrier.split('np.')[1])
        if not all(_exact(np, v, tp) for v in vals):
            return None
        items = [tp(int(v)) if np.issubdtype(tp, np.integer) else tp(float(v)) for v in vals]
        return items if carrier.startswith('list') else tuple(items)
    if carrier == 'list-mixed-np':                         # Python numbers and NumPy scalars of several types side by side
        out = []
        for i, v in enumerate(vals):
            cands = [t for t in (np.int8, np.int16, np.uint8, np.float16, np.float32, np.int32) if _exact(np, v, t)]
            if i % 2 and cands:
                t = cands[i % len(cands)]
                out.append(t(int(v)) if np.issubdtype(t, np.integer) else t(float(v)))
            else:
                out.append(int(v) if v.denominator == 1 and i % 4 == 0 else float(v))
        return out
    if carrier == 'ndarray-obj':
        return np.array([int(v) if v.denominator == 1 else float(v) for v in vals], dtype=object)
    if carrier == 'list':
        return [int(v) if (v.denominator == 1 and i % 2 == 0) else float(v) for i, v in enumerate(vals)]
    if carrier == 'tuple':
        return tuple(float(v) for v in vals)
    if carrier == 'ndarray-strided':        # every second element of a longer buffer (a non-contiguous 1-D view)
        buf = np.zeros(2 * n, dtype=np.float64)
        buf[::2] = fl
        return buf[::2]
    if carrier in ('ndarray-2d-F', 'ndarray-2d-T', 'ndarray-3d', 'ndarray-3d-swap', 'ndarray-i64-2d-F'):
        # the same logical contents (row-major order = vals) in memory layouts other than C order, and with three dimensions
        if n % 2:
            return None
        base = np.array(fl, dtype=np.float64).reshape(2, n // 2)
        if carrier == 'ndarray-i64-2d-F':
            if not all(_exact(np, v, np.int64) for v in vals):
                return None
            return np.asfortranarray(np.array([int(v) for v in vals], dtype=np.int64).reshape(2, n // 2))
        if carrier == 'ndarray-2d-F':
            return np.asfortranarray(base)
        if carrier == 'ndarray-2d-T':
            return np.ascontiguousarray(base.T).T                 # a transposed VIEW
        if carrier == 'ndarray-3d':
            return base.reshape(2, 1, n // 2)
        return np.ascontiguousarray(base.reshape(2, 1, n // 2).swapaxes(0, 2)).swapaxes(0, 2)      # non-contiguous 3-D view
    if carrier in ('nested-list', 'nested-tuple', 'ndarray-2d'):
        if n % 2:
            return None
        rows = [fl[:n // 2], fl[n // 2:]]
        if carrier == 'nested-list':
            return rows
        if carrier == 'nested-tuple':
            return tuple(tuple(r) for r in rows)
        return np.array(rows)
    if carrier == 'list-decstr':
        return [decstr(v) for v in vals]
    raise ValueError(carrier)


def observe_complex(fx, np, fmt, modes, re_vals, im_vals, route, props, scalar=True):
    """complex input: each component is quantized on its own (C01).  Returns two store rows (real parts, imaginary parts)."""
    s, w, f = fmt
    out = []
    base = {'k': 'store', 'p': list(props), 's': bool(s), 'w': w, 'f': f, 'r': modes[0], 'o': modes[1], 'route': route, 'agg': True,
            'sorted': False, 'rb': []}
    try:
        if scalar:
            codes_r, codes_i, fo, fu, fi = [], [], False, False, False
            for a, b in zip(re_vals, im_vals):
                x, sel = do_write(fx, np, route, complex(float(a), float(b)), fmt, modes, 1)
                v = np.asarray(sel.val).ravel()[0]
                codes_r.append(int(v.real)); codes_i.append(int(v.imag))
                if float(v.real) != int(v.real) or float(v.imag) != int(v.imag):
                    raise ValueError('non-integral complex code')
            # flags of a complex write cover both components: judged per row as "at least", so they are not logged here
            for nm, vals, cs in (('re', re_vals, codes_r), ('im', im_vals, codes_i)):
                out.append(dict(base, carrier='complex.' + nm, v=[wdy(v) for v in vals], c=[wint(c) for c in cs], fo=[False], fu=[False], fi=[False]))
        else:
            arr = np.array([complex(float(a), float(b)) for a, b in zip(re_vals, im_vals)])
            x, sel = do_write(fx, np, route, arr, fmt, modes, len(re_vals))
            vv = np.asarray(sel.val).ravel()
            for nm, vals, cs in (('re', re_vals, [int(c.real) for c in vv]), ('im', im_vals, [int(c.imag) for c in vv])):
                out.append(dict(base, carrier='ndarray-complex.' + nm, v=[wdy(v) for v in vals], c=[wint(c) for c in cs], fo=[False], fu=[False], fi=[False]))
        return out
    except Exception as ex:
        return [dict(base, k='error', carrier='complex', err=type(ex).__name__, msg=str(ex)[:200], v=[wdy(v) for v in re_vals[:2]])]


def _snapshot(container):
    import copy
    return copy.deepcopy(container)


def _narrow(w, f):
    """a word length below w (below 64 when w allows it) that can hold n_frac = f with a non-negative integer part"""
    for w0 in (16, 40, 62):
        if w0 < w and f <= w0 - 1:
            return w0
    return max(1, w - 1)


def do_write(fx, np, route, obj, fmt, modes, n, raw=False):
    """perform one write of obj by the given route; returns the written Fxp (view for setitem routes) and
    the selector that extracts the written elements"""
    Fxp = fx.Fxp
    s, w, f = fmt
    kw = dict(rounding=modes[0], overflow=modes[1])
    if raw:        # the input is a CODE (raw=True): constructor, set_val and indexed assignment through set_val(index=)
        if route == 'ctor':
            x = Fxp(obj, s, w, f, raw=True, **kw)
            return x, x
        if route in ('set_val', 'call', 'call-reset', 'recfg'):
            x = Fxp(None, s, w, f, **kw)
            if route == 'call-reset':
                x.set_val((1 << (w + 3)) + 1, raw=True)
                x.reset()
            x.set_val(obj, raw=True)
            return x, x
        if route == 'setitem':
            x = Fxp(np.zeros(3), s, w, f, **kw)
            x.set_val(obj, raw=True, index=1)
            return x, x[1]
        if route == 'widen-setitem':   # history: an array created in a narrow word, widened by resize (same sign, same n_frac), then an indexed store
            x = Fxp(np.zeros(3), s, _narrow(w, f), f, **kw)
            x.resize(n_word=w)
            x.reset()
            x.set_val(obj, raw=True, index=1)
            return x, x[1]
        raise ValueError('raw ' + route)
    if route == 'ctor':
        x = Fxp(obj, s, w, f, **kw)
        return x, x
    if route == 'call':
        x = Fxp(None, s, w, f, **kw)
        x(obj)
        return x, x
    if route == 'set_val':
        x = Fxp(None, s, w, f, **kw)
        x.set_val(obj)
        return x, x
    if route == 'call-reset':       # history: an earlier (inexact, possibly overflowing) write, reset(), then the write
        x = Fxp(None, s, w, f, **kw)
        x(0.3 if not isinstance(obj, (list, tuple, np.ndarray)) or np.ndim(obj) == 0 else np.full(np.shape(obj), 2.0 ** (w - f) + 0.3))
        x.reset()
        x(obj)
        return x, x
    if route == 'recfg':            # history: created and used under OTHER modes, reconfigured through .config, reset, write
        x = Fxp(None, s, w, f, rounding=_OTHER[modes[0]], overflow=_OTHER[modes[1]])
        x(0.3 if np.ndim(obj) == 0 else np.full(np.shape(obj), 0.3))
        x.config.rounding = modes[0]
        x.config.overflow = modes[1]
        x.reset()
        x.set_val(obj)
        return x, x
    if route == 'config-obj':        # the modes arrive inside a Config object built on its own
        x = Fxp(None, s, w, f, config=fx.Config(rounding=modes[0], overflow=modes[1]))
        x.set_val(obj)
        return x, x
    if route == 'odd-config':        # every configuration attribute that has nothing to do with storing is set to a non-default value
        x = Fxp(None, s, w, f, n_word_max=max(w, 1), max_error=0.25, dtype_notation='Q', op_sizing='same', const_op_sizing='largest',
                shifting='trunc', op_input_size='best', op_method='repr', array_op_method='repr', **kw)
        x.set_val(obj)
        return x, x
    if route in ('resize-signed', 'resize-fmt', 'like-signed'):
        # history: the object (or its template) lived in ANOTHER format -- other signedness only / other word or fraction length
        # only -- was used there, and is brought to the target format by resize / like= before the write
        prior = 0.3 if np.ndim(obj) == 0 and not isinstance(obj, (list, tuple)) else np.full(np.shape(np.array(obj, dtype=object)), 0.3)
        if route == 'resize-signed':
            x = Fxp(None, not s, w, f, **kw); x(prior); x.resize(signed=s)
        elif route == 'resize-fmt':
            if (w + f) % 2:
                x = Fxp(None, s, w, f + 2, **kw); x(prior); x.resize(n_frac=f)
            else:
                x = Fxp(None, s, w + 5, f, **kw); x(prior); x.resize(n_word=w)
        else:
            y = Fxp(None, not s, w, f, **kw); y(prior)
            x = Fxp(None, like=y, signed=s)
        x.reset()
        x.set_val(obj)
        return x, x
    if route in ('then-reject', 'reject-then'):
        # calls that are REJECTED with an error (index out of range with an integer / a float, a value that is no number, a bit
        # string longer than the word) before or after the measured write: the object must be what the accepted writes made it
        def rejected(x):
            k = int(np.size(x.val)) if x.val is not None else 1
            bads = [lambda: x.__setitem__(k + 3, 0), lambda: x.__setitem__(k + 3, 0.0), lambda: x.set_val(0, index=k + 3),
                    lambda: x.set_val({'a': 1}), lambda: x('0b' + '1' * (w + 3)), lambda: x('no number'), lambda: x.set_val([0, None])]
            rot = (w + f + n) % len(bads)          # (which rejection comes LAST varies: a later one may heal what an earlier one broke)
            for bad in bads[rot:] + bads[:rot]:
                try:
                    bad()
                except Exception:
                    pass
        if route == 'then-reject':
            x = Fxp(obj, s, w, f, **kw)
            rejected(x)
            return x, x
        x = Fxp(np.zeros(3) if np.ndim(obj) or isinstance(obj, (list, tuple)) else 0.0, s, w, f, **kw)
        rejected(x)
        x.set_val(obj)
        return x, x
    if route == 'like-flagged':     # built like= a reference object whose flags are all raised at that moment (they are not inherited)
        ref = Fxp(None, s, w, f, **kw)
        ref(np.array([2.0 ** (w - f + 2) + 0.3 * 2.0 ** -f, -2.0 ** (w - f + 2) - 0.3 * 2.0 ** -f]))
        x = Fxp(obj, like=ref)
        return x, x
    if route == 'setitem-reuse':    # history: the array object was USED (anything cached about it exists), then written in place
        from .x_arith import warm_up
        scalar_in = np.ndim(obj) == 0 and not isinstance(obj, (list, tuple))
        x = Fxp(np.arange(3 if scalar_in else n) % 2, s, w, f, **kw)
        warm_up(fx, np, x)
        x.reset()
        if scalar_in:
            x[1] = obj
            return x, x[1]
        x[0:n] = obj
        return x, x
    if route == 'widen-setitem':
        x = Fxp(np.zeros(3), s, _narrow(w, f), f, **kw)
        x.resize(n_word=w)
        x.reset()
        x[1] = obj
        return x, x[1]
    if route == 'setitem':          # scalar into one element of an array object (positive / negative index, alternating with the word)
        x = Fxp(np.zeros(3), s, w, f, **kw)
        if (w + f) % 2:
            x[-2] = obj
        else:
            x[1] = obj
        return x, x[1]
    if route == 'setitem-slice':    # array into a slice (positive / negative bounds)
        x = Fxp(np.zeros(n + 2), s, w, f, **kw)
        if (w + f) % 2:
            x[-(n + 1):-1] = obj
        else:
            x[1:n + 1] = obj
        return x, x[1:n + 1]
    if route == 'setitem-2d':
        x = Fxp(np.zeros((2, 3)), s, w, f, **kw)
        if (w + f) % 2:
            x[-1, -1] = obj
        else:
            x[1, 2] = obj
        return x, x[1, 2]
    raise ValueError(route)


def observe(fx, np, fmt, modes, vals, carrier, route, props, agg, extra=None, raw=False):
    """vals: list of Fractions.  agg: one array write.  Returns (row or None, error row or None)."""
    s, w, f = fmt
    base = {'k': 'store', 'p': list(props), 's': bool(s), 'w': w, 'f': f, 'r': modes[0], 'o': modes[1],
            'route': route + ('/raw' if raw else ''), 'carrier': carrier, 'agg': bool(agg), 'sorted': False}
    if extra:
        base.update(extra)
    if raw:        # vals are integer codes; as VALUES they are code * 2^-n_frac
        codes_in = [int(v) for v in vals]
        vals = [F(c) / F(2) ** f for c in codes_in]
    if agg:
        if raw or carrier.startswith('pyint-'):      # Python integers (codes, or integer values) in plain / nested containers
            ints = [int(c) for c in (codes_in if raw else vals)]
            h = len(ints) // 2
            kind = carrier[len('pyint-'):] if carrier.startswith('pyint-') else carrier
            obj = {'list': lambda: ints, 'tuple': lambda: tuple(ints), 'nested-list': lambda: [ints[:h], ints[h:2 * h]],
                   'nested-tuple': lambda: (tuple(ints[:h]), tuple(ints[h:2 * h])), 'list-1xk': lambda: [ints],
                   'list-3d': lambda: [[ints[:h]], [ints[h:2 * h]]],
                   # object arrays of Python integers in memory layouts other than C order (row-major contents = ints)
                   'obj-2d-F': lambda: np.asfortranarray(np.array(ints[:2 * h], dtype=object).reshape(2, h)),
                   'obj-2d-T': lambda: np.ascontiguousarray(np.array(ints[:2 * h], dtype=object).reshape(2, h).T).T,
                   'obj-3d-swap': lambda: np.ascontiguousarray(np.array(ints[:2 * h], dtype=object).reshape(2, 1, h).swapaxes(0, 2)).swapaxes(0, 2),
                   }.get(kind, lambda: np.array(ints, dtype=object))()
            if kind in ('nested-list', 'nested-tuple', 'list-3d', 'obj-2d-F', 'obj-2d-T', 'obj-3d-swap') and (len(ints) % 2 or h == 0):
                return None
        else:
            obj = make_array(np, carrier, vals)
        if obj is None:
            return None
        try:
            x, sel = do_write(fx, np, route, obj, fmt, modes, len(vals), raw=raw)
            codes = common.codes_of(sel)
            rb = np.asarray(sel.get_val(), dtype=float).ravel().tolist() if w <= 52 else []
            fl = common.flags_of(x)
        except Exception as ex:      # the property promises a result for this carrier/route
            return dict(base, k='error', err=type(ex).__name__, msg=str(ex)[:200], v=[wdy(v) for v in vals[:4]])
        row = dict(base, v=[wdy(v) for v in vals], c=[wint(c) for c in codes], rb=[wdy(b) for b in rb],
                   fo=[fl['o']], fu=[fl['u']], fi=[fl['i']])
        return row
    cs, rbs, fo, fu, fi, vs = [], [], [], [], [], []
    for vi, v in enumerate(vals):
        obj = make_scalar(np, carrier, v) if not raw else int(codes_in[vi])
        if obj is None:
            continue
        try:
            x, sel = do_write(fx, np, route, obj, fmt, modes, 1, raw=raw)
            c = common.codes_of(sel)
            if len(c) != 1:
                raise ValueError('scalar write produced %d elements' % len(c))
            b = float(np.asarray(sel.get_val(), dtype=float).ravel()[0]) if w <= 52 else None
            fl = common.flags_of(x)
        except Exception as ex:
            return dict(base, k='error', err=type(ex).__name__, msg=str(ex)[:200], v=[wdy(v)])
        vs.append(wdy(v)); cs.append(wint(c[0])); fo.append(fl['o']); fu.append(fl['u']); fi.append(fl['i'])
        if b is not None:
            rbs.append(wdy(b))
    if not vs:
        return None
    return dict(base, v=vs, c=cs, rb=rbs, fo=fo, fu=fu, fi=fi)
