"""Executing NumPy reductions / linear algebra on fixed-point arrays (C15) and logging observations (kind "reduce")."""
from . import common
from .common import wint
from .x_arith import mk, fmt_of

FUNCS = ['sum', 'cumsum', 'prod', 'cumprod', 'max', 'min', 'sort', 'clip', 'transpose', 'diagonal', 'trace', 'dot']


def _rows(codes, shape):
    if len(shape) == 1:
        return [[wint(c) for c in codes]]
    r, c = shape
    return [[wint(codes[i * c + j]) for j in range(c)] for i in range(r)]


def derived(fx, np, t, codes, shape, via):
    """an Fxp holding `codes` with `shape`, obtained from a PARENT object by a derivation that replaces the raw array
    without a store (history): transpose of the transposed parent, a row / a column / a slice of a bigger parent"""
    if via == 'T':
        if len(shape) == 1:
            return mk(fx, np, t, codes, None).T
        r, c = shape
        tcodes = [codes[i * c + j] for j in range(c) for i in range(r)]
        return mk(fx, np, t, tcodes, (c, r)).T
    if via == 'row' and len(shape) == 1:
        n = shape[0]
        return mk(fx, np, t, [0] * n + list(codes) + [1 if t[1] > 1 or not t[0] else 0] * n, (3, n))[1]
    if via == 'col' and len(shape) == 1:
        n = shape[0]
        flat = []
        for c in codes:
            flat += [0, c]
        return mk(fx, np, t, flat, (n, 2))[:, 1]
    if via == 'slice':
        if len(shape) == 1:
            return mk(fx, np, t, [0] + list(codes) + [0], None)[1:1 + shape[0]]
        r, c = shape
        return mk(fx, np, t, [0] * c + list(codes), (r + 1, c))[1:]
    return mk(fx, np, t, codes, shape if len(shape) == 2 else None)


def observe_reduce(fx, np, props, fn, route, t, codes, shape, axis=None, offset=0, lohi=None, t2=None, codes2=None, shape2=None, via='direct'):
    """codes: flat row-major list for an array of `shape` ((n,) or (r, c)) in format t."""
    ax = 'none' if (axis is None or len(shape) == 1) else str(axis)
    row = {'k': 'reduce', 'p': list(props), 'fn': fn, 'route': route + '.' + fn, 'axis': ax, 'x': dict(zip('swf', (bool(t[0]), t[1], t[2]))),
           'ndim': len(shape), 'rows': _rows(codes, shape), 'offset': offset, 'carrier': 'array%dd' % len(shape),
           'lo': wint(lohi[0]) if lohi else [0], 'hi': wint(lohi[1]) if lohi else [0],
           'y': dict(zip('swf', (bool(t2[0]), t2[1], t2[2]))) if t2 else {'s': False, 'w': 0, 'f': 0},
           'yrows': _rows(codes2, shape2) if t2 else [[]], 'yndim': len(shape2) if t2 else 0}
    try:
        X = derived(fx, np, t, codes, shape, via)
        if list(np.shape(X.val)) != list(shape) or common.codes_of(X) != list(codes):
            raise AssertionError('harness: derived operand does not hold the intended codes')
        row['route'] = route + '.' + fn + ('' if via == 'direct' else '/' + via)
        Y = (derived(fx, np, t2, codes2, shape2, via if via in ('T', 'slice') else 'direct')) if t2 else None
        if via == 'same-object' and t2 is not None:          # aliasing: the SAME object is both operands (x . x)
            if tuple(t2) != tuple(t) or list(codes2) != list(codes) or tuple(shape2) != tuple(shape):
                raise AssertionError('same-object needs identical operands')
            Y = X
        npr = route == 'np'
        # the RESULT of an earlier reduction of the same operand is reconfigured: the operand itself was never touched
        try:
            r0 = X.max() if len(codes) % 2 else np.sum(X, axis=0)
            r0.config.op_sizing = 'same'
            r0.config.overflow = 'wrap'
            r0.config.rounding = 'ceil'
            r0.config.op_method = 'repr'
        except Exception:
            pass
        kw = {} if axis is None else {'axis': (axis - len(shape)) if (len(codes) + t[1]) % 2 else axis}       # the same axis spelled negatively half of the time
        if fn in ('sum', 'cumsum', 'prod', 'cumprod', 'max', 'min'):
            Z = getattr(np, fn)(X, **kw) if npr else getattr(X, fn)(**kw)
        elif fn == 'sort':
            if npr:
                Z = np.sort(X, axis=axis) if axis is not None or len(shape) == 1 else np.sort(X, axis=None)
            else:
                X.sort(axis=axis if axis is not None else -1)
                Z = X
                if axis is None and len(shape) == 2:
                    row['axis'] = '1'
        elif fn == 'clip':
            lo_v, hi_v = lohi[0] / 2.0 ** t[2], lohi[1] / 2.0 ** t[2]
            Z = np.clip(X, lo_v, hi_v) if npr else X.clip(lo_v, hi_v)
        elif fn == 'transpose':
            Z = np.transpose(X) if npr else X.transpose()
        elif fn == 'diagonal':
            Z = np.diagonal(X, offset=offset) if npr else X.diagonal(offset=offset)
        elif fn == 'trace':
            Z = np.trace(X, offset=offset) if npr else X.trace(offset=offset)
        elif fn == 'dot':
            Z = {'np': lambda: np.dot(X, Y), 'method': lambda: X.dot(Y), 'matmul': lambda: np.matmul(X, Y)}[route]()
        else:
            raise ValueError(fn)
        if not isinstance(Z, fx.Fxp):
            raise TypeError('result is %s, not Fxp' % type(Z).__name__)
        fl = common.flags_of(Z)
        if fn != 'sort' or npr:
            if common.codes_of(X) != list(codes):
                raise AssertionError('operand modified')
        return dict(row, z=fmt_of(Z), cz=[wint(c) for c in common.codes_of(Z)], zshape=list(np.shape(Z.val)), fo=[fl['o']], fu=[fl['u']],
                    fi=[fl['i']], v=[0] * len(codes))
    except Exception as ex:
        return dict(row, k='error', err=type(ex).__name__, msg=str(ex)[:200])
