"""The repository's own test-suite as a trace: pytest runs on /repo's tests with the tracing guard FXPMATH_VERIF_TRACE on, so
every top-level store and every two-operand arithmetic call the maintainers' tests perform is recorded as an observation row
(same format as the drivers' rows) and judged by TLC - executions that the tests run but barely assert."""
import os, sys, json, subprocess, tempfile
from . import common, core, tlc

MIN_EVENTS = 5000        # the pinned suite yields ~22 000 events; far fewer means the hooks are not installed


def suite_rows(pid, chk=None):
    os.makedirs(tlc.WORK, exist_ok=True)
    fd, path = tempfile.mkstemp(prefix='suite-', suffix='.ndjson', dir=tlc.WORK)
    os.close(fd)
    os.remove(path)
    env = dict(os.environ, FXPMATH_VERIF_TRACE=path, PYTHONPATH=common.REPO, PYTHONHASHSEED='0')
    try:
        p = subprocess.run([sys.executable, '-m', 'pytest', '-q', '-p', 'no:cacheprovider', '--timeout=900', '--deselect',
                            'tests/test_performace.py', 'tests'], cwd=common.REPO, env=env, stdout=subprocess.PIPE, stderr=subprocess.STDOUT, timeout=1800)
        rows = []
        if os.path.exists(path):
            for line in open(path):
                try:
                    rows.append(json.loads(line))
                except ValueError:
                    raise core.Machinery('unparsable line in the test-suite trace')
        if len(rows) < MIN_EVENTS:
            raise core.Machinery('the traced test-suite produced only %d events: tracing hooks missing or disabled (pytest said: %s)'
                                 % (len(rows), p.stdout.decode('utf-8', 'replace')[-300:]))
        mine = []
        for r in rows:
            if pid in r.get('p', []):
                r['p'] = [pid]
                r['route'] = r.get('route', '') + '@testsuite'
                mine.append(r)
        if chk is not None:
            chk.subruns.append({'label': 'repository test-suite run with FXPMATH_VERIF_TRACE', 'kind': 'recorded-trace', 'events_recorded': len(rows),
                                'events_in_domain_of_' + pid: len(mine)})
        return mine
    finally:
        try:
            os.remove(path)
        except OSError:
            pass
