"""Executing bitwise operators (C13) and shifts (C14) on the real implementation."""
from . import common
from .common import wint
from .x_arith import mk, fmt_of, mk_hist


def observe_bitwise(fx, np, props, op, tx, cxs, ty=None, cys=None, mask=None, side='right', scalar=False, hist=None, shape=None, mask_as=None, iop=False):
    """op in not/and/or/xor.  y: a scalar Fxp of format ty (codes cys, one per x element => element-wise scalar calls are
    made by the caller) or an integer mask on either side."""
    row = {'k': 'bitwise', 'p': list(props), 'op': op, 'x': dict(zip('swf', (bool(tx[0]), tx[1], tx[2]))),
           'y': dict(zip('swf', (bool(ty[0]), ty[1], ty[2]))) if ty else {'s': False, 'w': 0, 'f': 0},
           'ykind': 'fxp' if ty else ('mask' if mask is not None else 'none'), 'side': side,
           'route': op + ('/' + ('fxp' if ty else 'mask-' + side) if op != 'not' else ''), 'carrier': 'scalar' if scalar else 'array'}
    try:
        X = mk_hist(fx, np, tx, cxs[0] if scalar else cxs, shape, mode=hist) if hist else mk(fx, np, tx, cxs[0] if scalar else cxs, shape)
        if hist:
            row['route'] = row['route'] + '/hist-' + hist
        if shape is not None:
            row['carrier'] = 'array%dd' % len(shape)
        if op == 'not':
            Z = ~X
            cy = 0
        elif iop:                   # the in-place spelling  Z = X; Z &= y   (what Z is afterwards is what the property is about)
            row['route'] = row['route'] + '/iop'
            Y = mk(fx, np, ty, cys) if ty else mask
            Z = X
            if op == 'and':
                Z &= Y
            elif op == 'or':
                Z |= Y
            else:
                Z ^= Y
            cy = cys if ty else int(mask)
            X = mk(fx, np, tx, cxs[0] if scalar else cxs, shape)          # (the operand-untouched check below does not apply to in-place spellings)
        elif ty:
            Y = mk(fx, np, ty, cys)           # scalar Fxp second operand
            Z = {'and': lambda: X & Y, 'or': lambda: X | Y, 'xor': lambda: X ^ Y}[op]()
            cy = cys
        else:
            if mask_as:            # the integer mask carried by a NumPy integer scalar / 0-d array (right-hand side)
                tp = np.int64 if mask_as == '0d' else getattr(np, mask_as)
                if not (np.iinfo(tp).min <= mask <= np.iinfo(tp).max):
                    return None
                pymask, mask = mask, (np.array(mask, dtype=np.int64) if mask_as == '0d' else tp(mask))
                row['route'] = row['route'] + '/np.' + mask_as
            if side == 'right':
                Z = {'and': lambda: X & mask, 'or': lambda: X | mask, 'xor': lambda: X ^ mask}[op]()
            else:
                Z = {'and': lambda: mask & X, 'or': lambda: mask | X, 'xor': lambda: mask ^ X}[op]()
            cy = int(mask)
        cl = [cxs[0]] if scalar else list(cxs)
        if common.codes_of(X) != cl:
            raise AssertionError('operand modified')
        if shape is not None and tuple(np.shape(Z.val)) != tuple(shape):
            raise AssertionError('result shape %r for operand shape %r' % (np.shape(Z.val), shape))
        return dict(row, z=fmt_of(Z), cx=[wint(c) for c in cl], cy=wint(cy), cz=[wint(c) for c in common.codes_of(Z)], v=[0] * len(cl))
    except Exception as ex:
        return dict(row, k='error', err=type(ex).__name__, msg=str(ex)[:200])


def observe_mismatch(fx, np, props, op, tx, ty):
    """operands of different word lengths must be rejected with an error"""
    row = {'k': 'bitwise-mismatch', 'p': list(props), 'op': op, 'x': dict(zip('swf', (bool(tx[0]), tx[1], tx[2]))),
           'y': dict(zip('swf', (bool(ty[0]), ty[1], ty[2]))), 'route': op + '/mismatch', 'carrier': 'scalar'}
    X = mk(fx, np, tx, 1 if tx[1] > 1 or not tx[0] else 0)
    Y = mk(fx, np, ty, 1 if ty[1] > 1 or not ty[0] else 0)
    try:
        {'and': lambda: X & Y, 'or': lambda: X | Y, 'xor': lambda: X ^ Y}[op]()
        return dict(row, raised=False, err='')
    except Exception as ex:
        return dict(row, raised=True, err=type(ex).__name__)


def observe_shift(fx, np, props, direction, mode, tx, cxs, n, ovf='saturate', scalar=False, hist=None, iop=False, bystander=False):
    row = {'k': 'shift', 'p': list(props), 'dir': direction, 'mode': mode, 'n': n, 'x': dict(zip('swf', (bool(tx[0]), tx[1], tx[2]))),
           'o': ovf, 'route': direction + '/' + mode, 'carrier': 'scalar' if scalar else 'array'}
    try:
        if hist:
            X = mk_hist(fx, np, tx, cxs[0] if scalar else cxs, None, mode=hist, shifting=mode, overflow=ovf)
            row['route'] = row['route'] + '/hist-' + hist
        else:
            X = mk(fx, np, tx, cxs[0] if scalar else cxs, shifting=mode, overflow=ovf)
        if bystander:
            # BYSTANDERS: results of earlier shifts of the same operand (and of ~X, X[...]) are reconfigured for the other shifting mode,
            # the other overflow mode, and overwritten - nothing of that may reach X or the measured shift
            row['route'] = row['route'] + '/bystander'
            others = []
            for f_ in (lambda: X << 0, lambda: X >> 0, lambda: X << 1, lambda: X >> 1, lambda: ~X, lambda: X[...] if np.ndim(X.val) else X.deepcopy()):
                try:
                    others.append(f_())
                except Exception:
                    pass
            for d_ in others:
                try:
                    d_.config.shifting = 'expand' if mode != 'expand' else 'trunc'
                    d_.config.overflow = 'wrap' if ovf == 'saturate' else 'saturate'
                    d_.config.rounding = 'ceil'
                except Exception:
                    pass
        if iop:           # in-place spelling: Z = X; Z <<= n  (X itself stays what it was)
            row['route'] = row['route'] + '/iop'
            Z = X
            if direction == 'l':
                Z <<= n
            else:
                Z >>= n
        else:
            Z = (X << n) if direction == 'l' else (X >> n)
        cl = [cxs[0]] if scalar else list(cxs)
        # what the result READS as (the value is what the property is about): only where every value is an exact double
        rb = [common.wdy(v) for v in np.asarray(Z.get_val(), dtype=float).ravel().tolist()] if int(Z.n_word) <= 52 else []
        if rb and scalar:          # the scalar conversions of the result agree with its code as well
            rb = rb + [common.wdy(float(Z)), common.wdy(float(np.asarray(Z()).ravel()[0])), common.wdy(float(np.asarray(Z.astype(float)).ravel()[0]))]
        return dict(row, z=fmt_of(Z), cx=[wint(c) for c in cl], ca=[wint(c) for c in common.codes_of(X)],
                    cz=[wint(c) for c in common.codes_of(Z)], v=[0] * len(cl), xa=fmt_of(X), rb=rb)
    except Exception as ex:
        return dict(row, k='error', err=type(ex).__name__, msg=str(ex)[:200])
