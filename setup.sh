#!/bin/sh
# offline setup: check the tools are there and that every TLA+ module parses (SANY); nothing is downloaded or built
set -e
cd "$(dirname "$0")"
command -v java >/dev/null
test -f /opt/veriftools/tla/tla2tools.jar
/venv/bin/python -c "import numpy, sys; sys.path.insert(0,'/repo'); import fxpmath"
mkdir -p evidence replays .work
for m in spec/JudgeB.tla spec/JudgeN.tla spec/FxpTrace.tla spec/mc/MC_Store.tla spec/mc/MC_BigInt.tla spec/mc/MC_Arith.tla spec/mc/MC_Conv.tla spec/mc/MC_Best.tla spec/mc/MC_Text.tla spec/mc/MC_Bits.tla spec/mc/MC_Misc.tla spec/mc/MC_Reduce.tla spec/mc/MC_System.tla spec/mc/MC_Functor.tla spec/mc/MC_Machine.tla; do
  java -DTLA-Library=spec:spec/mc -cp /opt/veriftools/tla/tla2tools.jar:/opt/veriftools/tla/CommunityModules-deps.jar tla2sany.SANY "$m" >/dev/null 2>&1 || { echo "SANY failed on $m"; exit 1; }
done
echo setup ok
