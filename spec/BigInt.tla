------------------------------- MODULE BigInt -------------------------------
(***************************************************************************)
(* Arbitrary-precision integers for TLC, whose Int is a 32-bit Java int.   *)
(*                                                                         *)
(* A value is  [neg |-> BOOLEAN, mag |-> little-endian Seq(0..B-1)]  with  *)
(* no trailing zero limb; zero is [neg |-> FALSE, mag |-> <<>>].  Normal   *)
(* forms are canonical, so TLA+ equality is integer equality.              *)
(*                                                                         *)
(* The base B = 2^LB is a CONSTANT: MC_BigInt checks every operator        *)
(* against native Int for B in {2,4,8} exhaustively on a small range (all  *)
(* carries, borrows, multi-limb shifts, negative floor shifts exercised)   *)
(* and on 30-bit values for the production base 2^15.                      *)
(***************************************************************************)
EXTENDS Integers, Sequences
CONSTANTS B, LB          \* B = 2^LB, LB <= 15 so that limb products stay < 2^31

Zero == [neg |-> FALSE, mag |-> <<>>]
IsZero(a) == a.mag = <<>>

RECURSIVE Trim(_)
Trim(m) == IF m = <<>> THEN <<>>
           ELSE IF m[Len(m)] = 0 THEN Trim(SubSeq(m, 1, Len(m)-1)) ELSE m
Norm(n, m) == LET t == Trim(m) IN [neg |-> (n /\ t # <<>>), mag |-> t]

RECURSIVE MagOfNat(_)
MagOfNat(n) == IF n = 0 THEN <<>> ELSE <<n % B>> \o MagOfNat(n \div B)
OfInt(i) == IF i < 0 THEN [neg |-> TRUE, mag |-> MagOfNat(-i)]
                     ELSE [neg |-> FALSE, mag |-> MagOfNat(i)]
RECURSIVE MagToNat(_)
MagToNat(m) == IF m = <<>> THEN 0 ELSE Head(m) + B * MagToNat(Tail(m))
\* only meaningful below 2^31 (lemma checking, small sizes)
ToInt(a) == IF a.neg THEN -MagToNat(a.mag) ELSE MagToNat(a.mag)
FitsInt(a) == Len(a.mag) * LB <= 30

Limb(m, i) == IF i <= Len(m) THEN m[i] ELSE 0
MaxI(x, y) == IF x >= y THEN x ELSE y

\* magnitude compare: -1, 0, 1
RECURSIVE MagCmpFrom(_,_,_)
MagCmpFrom(a, b, i) ==
  IF i = 0 THEN 0
  ELSE IF a[i] < b[i] THEN -1 ELSE IF a[i] > b[i] THEN 1 ELSE MagCmpFrom(a, b, i-1)
MagCmp(a, b) == IF Len(a) < Len(b) THEN -1 ELSE IF Len(a) > Len(b) THEN 1
                ELSE MagCmpFrom(a, b, Len(a))

RECURSIVE MagAddC(_,_,_,_)
MagAddC(a, b, i, c) ==
  IF i > MaxI(Len(a), Len(b)) THEN (IF c = 0 THEN <<>> ELSE <<c>>)
  ELSE LET t == Limb(a,i) + Limb(b,i) + c IN <<t % B>> \o MagAddC(a, b, i+1, t \div B)
MagAdd(a, b) == MagAddC(a, b, 1, 0)
\* requires a >= b
RECURSIVE MagSubC(_,_,_,_)
MagSubC(a, b, i, br) ==
  IF i > Len(a) THEN <<>>
  ELSE LET t == a[i] - Limb(b,i) - br IN
       IF t < 0 THEN <<t + B>> \o MagSubC(a, b, i+1, 1) ELSE <<t>> \o MagSubC(a, b, i+1, 0)
MagSub(a, b) == Trim(MagSubC(a, b, 1, 0))

Neg(a) == IF IsZero(a) THEN a ELSE [a EXCEPT !.neg = ~a.neg]
Abs(a) == [a EXCEPT !.neg = FALSE]
Add(a, b) ==
  IF a.neg = b.neg THEN Norm(a.neg, MagAdd(a.mag, b.mag))
  ELSE LET c == MagCmp(a.mag, b.mag) IN
       IF c = 0 THEN Zero
       ELSE IF c > 0 THEN Norm(a.neg, MagSub(a.mag, b.mag))
       ELSE Norm(b.neg, MagSub(b.mag, a.mag))
Sub(a, b) == Add(a, Neg(b))
Cmp(a, b) == IF a.neg /\ ~b.neg THEN -1 ELSE IF ~a.neg /\ b.neg THEN 1
             ELSE IF a.neg THEN MagCmp(b.mag, a.mag) ELSE MagCmp(a.mag, b.mag)
Lt(a, b) == Cmp(a, b) < 0
Le(a, b) == Cmp(a, b) <= 0
IsNeg(a) == a.neg

RECURSIVE MagMulS(_,_,_,_)
MagMulS(a, d, i, c) ==
  IF i > Len(a) THEN (IF c = 0 THEN <<>> ELSE <<c>>)
  ELSE LET t == a[i]*d + c IN <<t % B>> \o MagMulS(a, d, i+1, t \div B)
RECURSIVE MagMulFrom(_,_,_)
MagMulFrom(a, b, j) ==
  IF j > Len(b) THEN <<>>
  ELSE MagAdd(MagMulS(a, b[j], 1, 0), <<0>> \o MagMulFrom(a, b, j+1))
Mul(a, b) == IF IsZero(a) \/ IsZero(b) THEN Zero
             ELSE Norm(a.neg # b.neg, MagMulFrom(a.mag, b.mag, 1))

Pow2Small(k) == 2^k        \* k < LB
\* magnitude * 2^k
MagShl(m, k) ==
  IF m = <<>> THEN <<>>
  ELSE LET q == k \div LB  r == k % LB
       IN [i \in 1..q |-> 0] \o Trim(MagMulS(m, Pow2Small(r), 1, 0))
MagDropLimbs(m, q) == IF q >= Len(m) THEN <<>> ELSE SubSeq(m, q+1, Len(m))
RECURSIVE MagShrBits(_,_,_)
MagShrBits(m, r, i) ==
  IF i > Len(m) THEN <<>>
  ELSE <<(m[i] \div Pow2Small(r)) + (Limb(m, i+1) % Pow2Small(r)) * Pow2Small(LB - r)>>
       \o MagShrBits(m, r, i+1)
\* floor(magnitude / 2^k)
MagShr(m, k) == LET q == k \div LB  r == k % LB  d == MagDropLimbs(m, q)
                IN IF r = 0 THEN d ELSE Trim(MagShrBits(d, r, 1))
\* low k bits of a magnitude, as a magnitude
MagLow(m, k) ==
  LET q == k \div LB  r == k % LB
  IN Trim([i \in 1..(IF r = 0 THEN q ELSE q+1) |->
             IF i <= q THEN Limb(m,i) ELSE Limb(m,i) % Pow2Small(r)])
Shl(a, k) == Norm(a.neg, MagShl(a.mag, k))
\* floor(a / 2^k)  (rounds toward minus infinity, like Python's >>)
FloorShr(a, k) ==
  IF ~a.neg THEN Norm(FALSE, MagShr(a.mag, k))
  ELSE LET q == MagShr(a.mag, k) IN
       IF MagLow(a.mag, k) = <<>> THEN Norm(TRUE, q) ELSE Norm(TRUE, MagAdd(q, <<1>>))
\* a mod 2^k, in 0 .. 2^k-1 (Python's %)
ModPow2(a, k) == IF ~a.neg THEN Norm(FALSE, MagLow(a.mag, k))
                 ELSE Sub(a, Shl(FloorShr(a, k), k))
Pow2(k) == Shl(OfInt(1), k)
\* bit i (0 = least significant) of a NON-NEGATIVE value
Bit(a, i) == (Limb(a.mag, (i \div LB) + 1) \div Pow2Small(i % LB)) % 2
\* number of bits of |a| (0 for zero)
RECURSIVE SmallBitLen(_)
SmallBitLen(n) == IF n = 0 THEN 0 ELSE 1 + SmallBitLen(n \div 2)
BitLen(a) == IF a.mag = <<>> THEN 0
             ELSE (Len(a.mag) - 1) * LB + SmallBitLen(a.mag[Len(a.mag)])
\* number of trailing zero bits of a non-zero value
RECURSIVE SmallLowZeros(_)
SmallLowZeros(n) == IF n % 2 = 1 THEN 0 ELSE 1 + SmallLowZeros(n \div 2)
RECURSIVE MagLowZeros(_,_)
MagLowZeros(m, i) == IF m[i] = 0 THEN LB + MagLowZeros(m, i+1) ELSE SmallLowZeros(m[i])
LowZeros(a) == MagLowZeros(a.mag, 1)
\* from the JSON wire format  <<neg, limb0, limb1, ...>>  (see DESIGN Appendix B)
FromWire(j) == Norm(j[1] = 1, Tail(j))
=============================================================================
