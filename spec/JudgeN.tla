-------------------------------- MODULE JudgeN -------------------------------
(* The trace validator over TLC's native integers: for rows of the exhaustive small worlds, *)
(* where every quantity stays far below 2^31.  MC_Functor shows both instantiations agree.   *)
EXTENDS Integers, Sequences, TLC, Json, IOUtils
NI(i) == i
NAdd(a, b) == a + b
NSub(a, b) == a - b
NNeg(a) == -a
NMul(a, b) == a * b
NLt(a, b) == a < b
NLe(a, b) == a <= b
NIsZero(a) == a = 0
NShl(a, k) == a * (2^k)
NShr(a, k) == a \div (2^k)
NMod2(a, k) == a % (2^k)
NBit(a, i) == (a \div (2^i)) % 2
RECURSIVE NBitLenNat(_)
NBitLenNat(n) == IF n = 0 THEN 0 ELSE 1 + NBitLenNat(n \div 2)
NBitLen(a) == NBitLenNat(IF a < 0 THEN -a ELSE a)
RECURSIVE NLowZeros(_)
NLowZeros(a) == IF a % 2 = 1 THEN 0 ELSE 1 + NLowZeros(a \div 2)
RECURSIVE NLimbs(_,_)
NLimbs(j, i) == IF i > Len(j) THEN 0 ELSE j[i] + 32768 * NLimbs(j, i + 1)
NFromWire(j) == IF j[1] = 1 THEN -NLimbs(j, 2) ELSE NLimbs(j, 2)
J == INSTANCE JudgeBody WITH ZI <- NI, ZAdd <- NAdd, ZSub <- NSub, ZNeg <- NNeg, ZMul <- NMul,
   ZLt <- NLt, ZLe <- NLe, ZIsZero <- NIsZero, ZShl <- NShl, ZShr <- NShr, ZMod2 <- NMod2,
   ZBit <- NBit, ZBitLen <- NBitLen, ZLowZeros <- NLowZeros, ZW <- NFromWire

(* stepping through the recorded rows: kept in the ROOT module so that TLC caches Rows *)
Rows == ndJsonDeserialize(IOEnv.TRACE_FILE)
VARIABLE l
Init == l = 1
Next == l <= Len(Rows) /\ J!JudgeRow(Rows[l]) /\ l' = l + 1
\* one state per consumed row plus the initial one
Accepted == IF TLCGet("stats").diameter - 1 = Len(Rows)
            THEN PrintT(<<"CONSUMED", Len(Rows)>>)
            ELSE PrintT(<<"UNCONSUMED", TLCGet("stats").diameter - 1, Len(Rows)>>) /\ FALSE
=============================================================================
