------------------------------ MODULE FxpMath ------------------------------
(***************************************************************************)
(* PROPERTY-LEVEL definitions of fractional fixed-point (base 2) formats,  *)
(* rounding, overflow handling and quantization - the vocabulary in which  *)
(* properties C01..C20 are stated.                                         *)
(*                                                                         *)
(* The module is a FUNCTOR over an abstract integer interface (Z...): it   *)
(* is instantiated with TLC's native integers for the exhaustive small     *)
(* worlds (fast) and with BigInt limb integers for traces of the real      *)
(* implementation on 52..256-bit formats.  MC_Functor checks that the two  *)
(* instantiations agree.                                                   *)
(*                                                                         *)
(*   format  t = [s |-> BOOLEAN, w |-> Nat, f |-> Int]  (signed, n_word,   *)
(*                                                        n_frac)          *)
(*   dyadic  d = [m |-> Z, e |-> Int]        meaning  m * 2^e              *)
(*   (exponents, word lengths and bit counts are always native small Ints) *)
(***************************************************************************)
EXTENDS Integers, Sequences
CONSTANTS ZI(_),          \* native Int -> Z
          ZAdd(_,_), ZSub(_,_), ZNeg(_), ZMul(_,_),
          ZLt(_,_), ZLe(_,_), ZIsZero(_),
          ZShl(_,_),      \* a * 2^k            (k >= 0 native)
          ZShr(_,_),      \* floor(a / 2^k)     (k >= 0 native)
          ZMod2(_,_),     \* a mod 2^k in 0..2^k-1
          ZBit(_,_),      \* bit i of a non-negative a (0 = LSB), native 0/1
          ZBitLen(_),     \* number of bits of |a| (0 for 0), native
          ZLowZeros(_)    \* number of trailing zero bits of a # 0, native

\* re-exported under I-names so that instantiating modules can use them (F!IAdd ...)
IOf(i) == ZI(i)
IAdd(a, b) == ZAdd(a, b)
ISub(a, b) == ZSub(a, b)
INeg(a) == ZNeg(a)
IMul(a, b) == ZMul(a, b)
ILt(a, b) == ZLt(a, b)
ILe(a, b) == ZLe(a, b)
IIsZero(a) == ZIsZero(a)
IShl(a, k) == ZShl(a, k)
IShr(a, k) == ZShr(a, k)
IMod2(a, k) == ZMod2(a, k)
IBit(a, i) == ZBit(a, i)
IBitLen(a) == ZBitLen(a)

Z0 == ZI(0)
Z1 == ZI(1)
ZPow2(k) == ZShl(Z1, k)
ZGt(a, b) == ZLt(b, a)
ZGe(a, b) == ZLe(b, a)
ZIsNeg(a) == ZLt(a, Z0)
ZIsOdd(a) == ZBit(ZMod2(a, 1), 0) = 1
ZAbs(a) == IF ZIsNeg(a) THEN ZNeg(a) ELSE a
ZMax(a, b) == IF ZLt(a, b) THEN b ELSE a
ZMin(a, b) == IF ZLt(b, a) THEN b ELSE a
\* equality on Z is structural equality (both instantiations are canonical)

MaxI(a, b) == IF a >= b THEN a ELSE b
MinI(a, b) == IF a <= b THEN a ELSE b
BitOf(b) == IF b THEN 1 ELSE 0

Roundings == {"trunc", "fix", "floor", "ceil", "around"}
Overflows == {"saturate", "wrap"}

(***************************** formats *************************************)
Lo(t) == IF t.s THEN ZNeg(ZPow2(t.w - 1)) ELSE Z0
Hi(t) == IF t.s THEN ZSub(ZPow2(t.w - 1), Z1) ELSE ZSub(ZPow2(t.w), Z1)
NInt(t) == t.w - t.f - BitOf(t.s)
InRange(c, t) == ZLe(Lo(t), c) /\ ZLe(c, Hi(t))

(***************************** dyadics *************************************)
D(m, e) == [m |-> m, e |-> e]
DOfInt(m) == [m |-> m, e |-> 0]
Scale(d, k) == [m |-> d.m, e |-> d.e + k]                    \* d * 2^k, exact
\* bring to a common (smaller) exponent
AlignM(d, e) == ZShl(d.m, d.e - e)                           \* requires e <= d.e
DAdd(a, b) == LET e == MinI(a.e, b.e) IN [m |-> ZAdd(AlignM(a, e), AlignM(b, e)), e |-> e]
DSub(a, b) == LET e == MinI(a.e, b.e) IN [m |-> ZSub(AlignM(a, e), AlignM(b, e)), e |-> e]
DNeg(a) == [m |-> ZNeg(a.m), e |-> a.e]
DMul(a, b) == [m |-> ZMul(a.m, b.m), e |-> a.e + b.e]
DLt(a, b) == LET e == MinI(a.e, b.e) IN ZLt(AlignM(a, e), AlignM(b, e))
DLe(a, b) == LET e == MinI(a.e, b.e) IN ZLe(AlignM(a, e), AlignM(b, e))
DEq(a, b) == LET e == MinI(a.e, b.e) IN AlignM(a, e) = AlignM(b, e)
DIsZero(a) == ZIsZero(a.m)
DIsNeg(a) == ZIsNeg(a.m)
IsIntD(d) == d.e >= 0 \/ ZIsZero(ZMod2(d.m, -d.e))
FloorD(d) == IF d.e >= 0 THEN ZShl(d.m, d.e) ELSE ZShr(d.m, -d.e)
CeilD(d)  == IF IsIntD(d) THEN FloorD(d) ELSE ZAdd(FloorD(d), Z1)
TruncD(d) == IF ZIsNeg(d.m) THEN CeilD(d) ELSE FloorD(d)
\* fractional part of d compared with 1/2:  -1, 0, +1     (only when d.e < 0)
HalfCmp(d) == LET k == -d.e  fr == ZMod2(d.m, k)  h == ZPow2(k - 1)
              IN IF ZLt(fr, h) THEN -1 ELSE IF ZLt(h, fr) THEN 1 ELSE 0
\* nearest integer, ties to the EVEN integer
AroundD(d) == IF d.e >= 0 THEN FloorD(d)
              ELSE LET fl == FloorD(d)  c == HalfCmp(d) IN
                   IF c < 0 THEN fl
                   ELSE IF c > 0 THEN ZAdd(fl, Z1)
                   ELSE IF ZIsOdd(fl) THEN ZAdd(fl, Z1) ELSE fl
Round(d, r) == CASE r = "floor"  -> FloorD(d)
                 [] r = "ceil"   -> CeilD(d)
                 [] r = "trunc"  -> TruncD(d)
                 [] r = "fix"    -> TruncD(d)
                 [] r = "around" -> AroundD(d)

(**************************** overflow *************************************)
Saturate(k, t) == IF ZLt(Hi(t), k) THEN Hi(t) ELSE IF ZLt(k, Lo(t)) THEN Lo(t) ELSE k
\* the unique in-range integer congruent to k modulo 2^w
Wrap(k, t) == LET x == ZMod2(k, t.w)
              IN IF t.s /\ ZLe(ZPow2(t.w - 1), x) THEN ZSub(x, ZPow2(t.w)) ELSE x
\* quantizer-free statement of the same thing (C03): in range and congruent
WrapOK(k, c, t) == InRange(c, t) /\ ZIsZero(ZMod2(ZSub(c, k), t.w))
Overflow(k, t, o) == IF o = "saturate" THEN Saturate(k, t) ELSE Wrap(k, t)

(**************************** quantization *********************************)
ValueOf(c, t) == [m |-> c, e |-> -t.f]                       \* code * 2^-f
\* C01: code = OVERFLOW(ROUND(v * 2^f)), flags per C04
Quantize(v, t, r, o) ==
   LET k == Round(Scale(v, t.f), r)
       c == Overflow(k, t, o)
   IN [code |-> c, k |-> k,
       over |-> ZLt(Hi(t), k), under |-> ZLt(k, Lo(t)),
       inexact |-> ~DEq(ValueOf(c, t), v)]
\* convert a stored code of format ts into format td (C10)
Convert(c, ts, td, r, o) == Quantize(ValueOf(c, ts), td, r, o)

(********* rounding contracts in closed form (C05), quantizer free *********)
\* x = v*2^f as a dyadic, q an integer code.  All are statements about (x, q) only.
QD(q) == [m |-> q, e |-> 0]
FloorRel(x, q)  == DLe(QD(q), x) /\ DLt(x, QD(ZAdd(q, Z1)))          \* q <= x < q+1
CeilRel(x, q)   == DLt(QD(ZSub(q, Z1)), x) /\ DLe(x, QD(q))          \* q-1 < x <= q
TruncRel(x, q)  == IF DIsNeg(x) THEN CeilRel(x, q) ELSE FloorRel(x, q)
\* |q - x| <= 1/2, even q on ties
AroundRel(x, q) == LET twice == Scale(DSub(QD(q), x), 1)             \* 2(q - x)
                       one == DOfInt(Z1)  mone == DOfInt(ZNeg(Z1))
                   IN /\ DLe(mone, twice) /\ DLe(twice, one)
                      /\ ((DEq(twice, one) \/ DEq(twice, mone)) => ~ZIsOdd(q))
RoundRel(x, q, r) == CASE r = "floor" -> FloorRel(x, q) [] r = "ceil" -> CeilRel(x, q)
                       [] r \in {"trunc", "fix"} -> TruncRel(x, q) [] r = "around" -> AroundRel(x, q)
\* |q - x| < 1  in every mode
WithinOneLSB(x, q) == DLt(QD(ZSub(q, Z1)), x) /\ DLt(x, QD(ZAdd(q, Z1)))

(************************** size inference (C06) ***************************)
\* fewest fraction bits (>= 0) that make the dyadic d an integer after scaling
MinFracOf(d) == IF ZIsZero(d.m) THEN 0 ELSE MaxI(0, -(d.e + ZLowZeros(d.m)))
\* fewest word bits whose range contains the integer code c (w may be 0 for unsigned 0)
MinWordOf(c, signed) ==
   IF signed THEN (IF ZIsNeg(c) THEN ZBitLen(ZAdd(c, Z1)) ELSE ZBitLen(c)) + 1
   ELSE ZBitLen(c)
=============================================================================
