------------------------------ MODULE FxpParse -------------------------------
(***************************************************************************)
(* IMPLEMENTATION-SHAPED string parsers (utils.strbin2int, strbin2float,   *)
(* strhex2int, strhex2float, the dispatch of str2num) and the two dtype    *)
(* grammars of Fxp._parseformatstr, transcribed on sequences of character  *)
(* codes with native integers.  MC_Text checks Parse(Render(code)) = code  *)
(* and ParseFmt(FmtString(format)) = format on the small world.            *)
(***************************************************************************)
EXTENDS Integers, Sequences
Pow2(n) == 2^n
CH0 == 48  CH1 == 49  CHDOT == 46  CHb == 98  CHx == 120  CHA == 65  CHa == 97  CHMINUS == 45  CHPLUS == 43  CHSLASH == 47
ERR == [err |-> TRUE]
Repeat(ch, n) == [i \in 1..n |-> ch]
RECURSIVE BitsToNat(_)
BitsToNat(s) == IF s = <<>> THEN 0 ELSE 2 * BitsToNat(SubSeq(s, 1, Len(s) - 1)) + (s[Len(s)] - CH0)
\* x.replace('0b','b').replace('b','')
StripBinPrefix(s) == IF Len(s) >= 2 /\ s[1] = CH0 /\ s[2] = CHb THEN SubSeq(s, 3, Len(s))
                     ELSE IF Len(s) >= 1 /\ s[1] = CHb THEN Tail(s) ELSE s
\* strbin2int(x, signed, n_word): sign-extend with the first character / zero-extend, two's complement
StrBin2Int(s0, signed, w) ==
   LET s == StripBinPrefix(s0)
       x == IF Len(s) < w THEN (IF signed THEN Repeat(s[1], w - Len(s)) ELSE Repeat(CH0, w - Len(s))) \o s ELSE s
   IN IF Len(x) > w THEN ERR
      ELSE IF signed
           THEN (IF Len(x) < 2 THEN ERR
                 ELSE LET v == BitsToNat(Tail(x)) IN IF x[1] = CH1 THEN -(Pow2(w - 1) - v) ELSE v)
           ELSE BitsToNat(x)
HasDot(s) == \E i \in DOMAIN s : s[i] = CHDOT
RemoveDots(s) == SelectSeq(s, LAMBDA ch : ch # CHDOT)
FracLen(s) == LET p == CHOOSE i \in DOMAIN s : s[i] = CHDOT IN Len(s) - p
\* strbin2float with n_frac given: pad the fraction with zeros, drop the point, parse the raw word; value = word / 2^f.
\* Returned: the CODE the object stores in value mode (value * 2^f = the raw word)
StrBin2Code(s0, signed, w, f) ==
   LET padded == IF HasDot(s0) THEN s0 \o Repeat(CH0, f - FracLen(s0)) ELSE s0
   IN StrBin2Int(RemoveDots(padded), signed, w)
HexVal(ch) == IF ch >= CHa THEN ch - CHa + 10 ELSE IF ch >= CHA THEN ch - CHA + 10 ELSE ch - CH0
RECURSIVE HexToNat(_)
HexToNat(s) == IF s = <<>> THEN 0 ELSE 16 * HexToNat(SubSeq(s, 1, Len(s) - 1)) + HexVal(s[Len(s)])
RECURSIVE NatToBits(_,_)
NatToBits(n, k) == IF k = 0 THEN <<>> ELSE NatToBits(n \div 2, k - 1) \o <<CH0 + (n % 2)>>
RECURSIVE NatBitLen(_)
NatBitLen(n) == IF n = 0 THEN 0 ELSE 1 + NatBitLen(n \div 2)
\* strhex2int: x.replace('0x',''); bin(int(x,16)) zero-padded to n_word, then strbin2int
StrHex2Int(s, signed, w) ==
   LET n == HexToNat(SubSeq(s, 3, Len(s)))
       bl == IF n = 0 THEN 1 ELSE NatBitLen(n)
       bits == IF bl < w THEN NatToBits(n, w) ELSE NatToBits(n, bl)
   IN StrBin2Int(bits, signed, w)
\* str2num + set_val, value mode and raw mode, for a string rendered by bin()/hex() of the same format:
\* the code that ends up stored
ParseBin(s, t, raw) == IF raw THEN StrBin2Int(s, t.s, t.w)
                       ELSE IF HasDot(s) \/ t.f > 0 THEN StrBin2Code(s, t.s, t.w, t.f) ELSE StrBin2Int(s, t.s, t.w)
ParseHex(s, t, raw) == StrHex2Int(s, t.s, t.w)      \* strhex2float = the same word scaled by 2^-f

(************************** dtype grammars *********************************)
IsDigit(ch) == ch >= CH0 /\ ch <= CH0 + 9
Fold(s) == [i \in DOMAIN s |-> IF s[i] >= 65 /\ s[i] <= 90 THEN s[i] + 32 ELSE s[i]]      \* casefold (ASCII)
\* longest run of digits starting at position i; returns the position after it
RECURSIVE DigitsEnd(_,_)
DigitsEnd(s, i) == IF i <= Len(s) /\ IsDigit(s[i]) THEN DigitsEnd(s, i + 1) ELSE i
RECURSIVE DecVal(_)
DecVal(s) == IF s = <<>> THEN 0 ELSE 10 * DecVal(SubSeq(s, 1, Len(s) - 1)) + (s[Len(s)] - CH0)
\* [+-]?\d+ starting at i: returns [ok, val, next]
SignedInt(s, i) ==
   LET sg == i <= Len(s) /\ s[i] \in {CHPLUS, CHMINUS}
       j == IF sg THEN i + 1 ELSE i
       k == DigitsEnd(s, j)
   IN IF k = j THEN [ok |-> FALSE, val |-> 0, next |-> i]
      ELSE [ok |-> TRUE, val |-> (IF sg /\ s[i] = CHMINUS THEN -1 ELSE 1) * DecVal(SubSeq(s, j, k - 1)), next |-> k]
\* (s|u|q|uq|qu)([+-]?\d+)(\.[+-]?\d+)?   matched at the start of the case-folded string (re.match: prefix match)
\* (the integer part m may be negative - an oversized fraction length renders as Q-3.11; before repair D29 the grammar had (\d+) there)
QMatch(s) ==
   LET p2 == IF Len(s) >= 2 THEN <<s[1], s[2]>> ELSE <<>>
       plen == IF p2 = <<117, 113>> \/ p2 = <<113, 117>> THEN 2
               ELSE IF Len(s) >= 1 /\ s[1] \in {115, 117, 113} THEN 1 ELSE 0
       mi == SignedInt(s, plen + 1)
       k == mi.next
   IN IF plen = 0 \/ ~mi.ok THEN ERR
      ELSE LET signed == (plen = 1 /\ s[1] \in {115, 113})        \* mo.group(1) in 'sq'
               m == mi.val
               fr == IF k <= Len(s) /\ s[k] = CHDOT THEN SignedInt(s, k + 1) ELSE [ok |-> FALSE, val |-> 0, next |-> k]
               n == IF fr.ok THEN fr.val ELSE 0
           IN [s |-> signed, w |-> m + n, f |-> n, cplx |-> FALSE]
\* fxp-(s|u)(\d+)/([+-]?\d+)(-complex)?
S_fxp == <<102, 120, 112, 45>>
S_complex == <<45, 99, 111, 109, 112, 108, 101, 120>>
FxpMatch(s) ==
   IF Len(s) < 6 \/ SubSeq(s, 1, 4) # S_fxp \/ s[5] \notin {115, 117} THEN ERR
   ELSE LET k == DigitsEnd(s, 6) IN
        IF k = 6 \/ k > Len(s) \/ s[k] # CHSLASH THEN ERR
        ELSE LET fr == SignedInt(s, k + 1) IN
             IF ~fr.ok THEN ERR
             ELSE [s |-> s[5] = 115, w |-> DecVal(SubSeq(s, 6, k - 1)), f |-> fr.val,
                   cplx |-> (Len(s) >= fr.next + 7 /\ SubSeq(s, fr.next, fr.next + 7) = S_complex)]
\* _parseformatstr: casefold, try the Q grammar first, then the fxp grammar
ParseFmt(s0) == LET s == Fold(s0)  q == QMatch(s) IN IF q # ERR THEN q ELSE FxpMatch(s)
=============================================================================
