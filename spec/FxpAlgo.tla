------------------------------ MODULE FxpAlgo -------------------------------
(***************************************************************************)
(* IMPLEMENTATION-SHAPED algorithms: one operator per code path of         *)
(* fxpmath (objects.py / functions.py / utils.py), transcribed step by     *)
(* step on native integers.  The MC_* instances ask TLC to check, over a   *)
(* complete small world, that each algorithm satisfies the property-level  *)
(* statement in FxpMath/FxpOps - those are real lemmas (rounding a shifted *)
(* raw code equals rounding the real value, mask-and-sign-extend is the    *)
(* unique congruent representative, the growth rules leave room for the    *)
(* extreme corners, the integer-bit loop is minimal at -2^k ...).          *)
(*                                                                         *)
(* Machine integers are modelled as MW-bit two's-complement words where    *)
(* the code manipulates bits (utils.wrap, uraw, bitwise operators).        *)
(***************************************************************************)
EXTENDS Integers, Sequences, FiniteSets
CONSTANT MW             \* machine word length of the bit-level model (>= every word used + 2)

Pow2(n) == 2^n
Bit01(b) == IF b THEN 1 ELSE 0
AbsI(n) == IF n < 0 THEN -n ELSE n
MaxOf(a, b) == IF a >= b THEN a ELSE b
MinOf(a, b) == IF a <= b THEN a ELSE b
SetMax(T) == CHOOSE x \in T : \A y \in T : y <= x
SetMin(T) == CHOOSE x \in T : \A y \in T : x <= y

(************************ machine words (bit level) ************************)
\* the MW-bit pattern of a (two's complement), as a natural number
Pat(a) == a % Pow2(MW)
\* reinterpret an MW-bit pattern as a signed machine integer
Sgn(p) == IF p >= Pow2(MW - 1) THEN p - Pow2(MW) ELSE p
RECURSIVE AndNat(_,_)
AndNat(x, y) == IF x = 0 \/ y = 0 THEN 0
                ELSE (IF x % 2 = 1 /\ y % 2 = 1 THEN 1 ELSE 0) + 2 * AndNat(x \div 2, y \div 2)
RECURSIVE OrNat(_,_)
OrNat(x, y) == IF x = 0 THEN y ELSE IF y = 0 THEN x
               ELSE (IF x % 2 = 1 \/ y % 2 = 1 THEN 1 ELSE 0) + 2 * OrNat(x \div 2, y \div 2)
RECURSIVE XorNat(_,_)
XorNat(x, y) == IF x = 0 THEN y ELSE IF y = 0 THEN x
                ELSE (IF (x % 2) # (y % 2) THEN 1 ELSE 0) + 2 * XorNat(x \div 2, y \div 2)
MAnd(a, b) == Sgn(AndNat(Pat(a), Pat(b)))          \* numpy int  a & b
MOr(a, b)  == Sgn(OrNat(Pat(a), Pat(b)))           \* numpy int  a | b

(*************************** formats (native) ******************************)
ValMax(t) == IF t.s THEN Pow2(t.w - 1) - 1 ELSE Pow2(t.w) - 1      \* set_val: val_max
ValMin(t) == IF t.s THEN -ValMax(t) - 1 ELSE 0                     \*          val_min
NIntOf(t) == t.w - t.f - Bit01(t.s)

(************** NumPy rounding of a dyadic x = m * 2^e (e < 0 possible) ****)
\* all four are what np.floor / np.ceil / np.trunc (= np.fix) / np.around return on an
\* exactly represented double; written the way a libm does it (integer part + sign), not as in FxpMath
Den(e) == Pow2(-e)                                   \* for e < 0
NpFloor(m, e) == IF e >= 0 THEN m * Pow2(e) ELSE m \div Den(e)
NpCeil(m, e)  == IF e >= 0 THEN m * Pow2(e) ELSE -((-m) \div Den(e))
NpTrunc(m, e) == IF e >= 0 THEN m * Pow2(e)
                 ELSE IF m >= 0 THEN m \div Den(e) ELSE -((-m) \div Den(e))
\* rint: add one half and floor; on an exact tie step back to the even neighbour
NpAround(m, e) == IF e >= 0 THEN m * Pow2(e)
                  ELSE LET d == Den(e)
                           up == (2 * m + d) \div (2 * d)              \* floor(x + 1/2)
                           tie == (2 * m + d) % (2 * d) = 0
                       IN IF tie /\ up % 2 = 1 THEN up - 1 ELSE up
NpRound(m, e, r) == CASE r = "floor" -> NpFloor(m, e) [] r = "ceil" -> NpCeil(m, e)
                      [] r = "trunc" -> NpTrunc(m, e) [] r = "fix" -> NpTrunc(m, e)
                      [] r = "around" -> NpAround(m, e)

(************************ utils.clip / utils.wrap **************************)
ClipAlgo(x, lo, hi) == MaxOf(lo, MinOf(hi, x))        \* max(val_min, min(val_max, x))
\* utils.wrap:  x = x & (m - 1);  if signed: x = where(x < 2^(w-1), x, x | (-m))
WrapAlgo(x, t) == LET m == Pow2(t.w)
                      y == MAnd(x, m - 1)
                  IN IF t.s THEN (IF y < Pow2(t.w - 1) THEN y ELSE MOr(y, -m)) ELSE y

(******************************* set_val ***********************************)
\* v = vm * 2^ve is the input (already de-scaled), raw => conversion factor 1.
\* _round is skipped for integer carriers whose scaled value is still an integer array
\* (int * (1 << n_frac)); for n_frac < 0 the factor is a float reciprocal so rounding applies.
StoreAlgo(vm, ve, t, rnd, ovf, raw) ==
   LET fe == IF raw THEN 0 ELSE t.f                  \* conv_factor = 2^fe
       k  == NpRound(vm, ve + fe, rnd)               \* new_val = _round(val * conv_factor)
       over == k > ValMax(t)                          \* _overflow_action
       under == k < ValMin(t)
       c == IF ovf = "saturate" THEN ClipAlgo(k, ValMin(t), ValMax(t)) ELSE WrapAlgo(k, t)
       \* inaccuracy:  not equal(val, new_val / conv_factor)   <=>  c * 2^-fe # vm * 2^ve
       e0 == MinOf(-fe, ve)
       inexact == c * Pow2(-fe - e0) # vm * Pow2(ve - e0)
   IN [code |-> c, over |-> over, under |-> under, inexact |-> inexact]

\* Fxp -> Fxp (constructor from Fxp, set_val(Fxp), resize, like(), equal()):
\*   val.val * 2**(n_frac_dst - n_frac_src)  stored with raw=True
ConvertAlgo(c, ts, td, rnd, ovf) == StoreAlgo(c, td.f - ts.f, td, rnd, ovf, TRUE)

(************************* arithmetic: the raw method ***********************)
\* Python floor division / modulo on integers (sign of the divisor)
FloorDivI(a, b) == IF b > 0 THEN a \div b ELSE (-a) \div (-b)
ModI(a, b) == a - b * FloorDivI(a, b)
\* x.val * 2**k : an integer for k >= 0, an exact float (dyadic) for k < 0.  As a dyadic [m, e].
Times2(c, k) == IF k >= 0 THEN [m |-> c * Pow2(k), e |-> 0] ELSE [m |-> c, e |-> k]
DyAdd(a, b) == LET e == MinOf(a.e, b.e) IN [m |-> a.m * Pow2(a.e - e) + b.m * Pow2(b.e - e), e |-> e]
DySub(a, b) == LET e == MinOf(a.e, b.e) IN [m |-> a.m * Pow2(a.e - e) - b.m * Pow2(b.e - e), e |-> e]
\* Fxp(val, signed, n_int, n_frac, raw=True, config): the constructor stores the raw value
StoreRawDy(d, tz, rnd, ovf) == StoreAlgo(d.m, d.e, tz, rnd, ovf, TRUE)
\* functions._add_raw / _sub_raw / _mul_raw with n_frac = tz.f
AddRawAlgo(cx, tx, cy, ty, tz, rnd, ovf) ==
   StoreRawDy(DyAdd(Times2(cx, tz.f - tx.f), Times2(cy, tz.f - ty.f)), tz, rnd, ovf)
SubRawAlgo(cx, tx, cy, ty, tz, rnd, ovf) ==
   StoreRawDy(DySub(Times2(cx, tz.f - tx.f), Times2(cy, tz.f - ty.f)), tz, rnd, ovf)
MulRawAlgo(cx, tx, cy, ty, tz, rnd, ovf) ==
   StoreRawDy(Times2(cx * cy, tz.f - tx.f - ty.f), tz, rnd, ovf)
\* the repr method: operate on the read-back values, store the value (not raw)
ReprAlgo(op, cx, tx, cy, ty, tz, rnd, ovf) ==
   LET vx == [m |-> cx, e |-> -tx.f]  vy == [m |-> cy, e |-> -ty.f]
       v == CASE op = "add" -> DyAdd(vx, vy) [] op = "sub" -> DySub(vx, vy)
              [] op = "mul" -> [m |-> cx * cy, e |-> -tx.f - ty.f]
   IN StoreAlgo(v.m, v.e, tz, rnd, ovf, FALSE)
RawAlgo(op, cx, tx, cy, ty, tz, rnd, ovf) ==
   CASE op = "add" -> AddRawAlgo(cx, tx, cy, ty, tz, rnd, ovf)
     [] op = "sub" -> SubRawAlgo(cx, tx, cy, ty, tz, rnd, ovf)
     [] op = "mul" -> MulRawAlgo(cx, tx, cy, ty, tz, rnd, ovf)
\* _truediv_raw:  (x.val * 2**(n_frac - x.n_frac + y.n_frac)) // y.val
TrueDivRawAlgo(cx, tx, cy, ty, tz, rnd, ovf) ==
   LET a == Times2(cx, tz.f - tx.f + ty.f)
       q == IF a.e = 0 THEN FloorDivI(a.m, cy) ELSE FloorDivI(a.m, cy * Pow2(-a.e))
   IN StoreAlgo(q, 0, tz, rnd, ovf, TRUE)
\* _floordiv_raw: ((x.val * 2**(f - fx)) // (y.val * 2**(f - fy))) * 2**f
FloorQuot(cx, tx, cy, ty, f) ==
   LET a == Times2(cx, f - tx.f)  b == Times2(cy, f - ty.f)  e == MinOf(a.e, b.e)
   IN FloorDivI(a.m * Pow2(a.e - e), b.m * Pow2(b.e - e))
FloorDivRawAlgo(cx, tx, cy, ty, tz, rnd, ovf) ==
   StoreRawDy(Times2(FloorQuot(cx, tx, cy, ty, tz.f), tz.f), tz, rnd, ovf)
\* _mod_raw: (x.val * 2**(f - fx)) % (y.val * 2**(f - fy))
ModRawAlgo(cx, tx, cy, ty, tz, rnd, ovf) ==
   LET a == Times2(cx, tz.f - tx.f)  b == Times2(cy, tz.f - ty.f)  e == MinOf(a.e, b.e)
   IN StoreAlgo(ModI(a.m * Pow2(a.e - e), b.m * Pow2(b.e - e)), e, tz, rnd, ovf, TRUE)

(***************************** bitwise operators ****************************)
\* utils.twos_complement_repr(val, nbits)
TwosRepr(val, nbits) == IF val < 0 THEN Pow2(nbits) + val
                        ELSE LET v == val % Pow2(nbits) IN IF AndNat(v, Pow2(nbits - 1)) # 0 THEN v - Pow2(nbits) ELSE v
\* Fxp.__invert__: binary_invert = (1 << n_word) - 1 - x ; re-signed when signed; stored raw in a deep copy
InvertAlgo(c, t) == LET inv == Pow2(t.w) - 1 - c
                        r == IF t.s THEN TwosRepr(inv, t.w) ELSE inv
                    IN ClipAlgo(r, ValMin(t), ValMax(t))
\* Fxp.__and__/__or__/__xor__: (int(x) % 2^w) op (int(y) % 2^w), re-signed when x is signed, stored raw
BitOpAlgo(op, cx, t, cy) ==
   LET xm == cx % Pow2(t.w)  ym == cy % Pow2(t.w)
       z == CASE op = "and" -> AndNat(xm, ym) [] op = "or" -> OrNat(xm, ym) [] op = "xor" -> XorNat(xm, ym)
       r == IF t.s THEN TwosRepr(z, t.w) ELSE z
   IN ClipAlgo(r, ValMin(t), ValMax(t))

(********************************* shifts ***********************************)
RECURSIVE LowBit(_)
LowBit(n) == IF n % 2 = 1 THEN 0 ELSE 1 + LowBit(n \div 2)          \* index of the lowest set bit of n # 0
\* utils.min_pow2 over the whole array (sequence of codes): lowest set bit of any element, NONE_ if all zero
NONE_ == -1
MinPow2(cs) == IF \A i \in DOMAIN cs : cs[i] = 0 THEN NONE_
               ELSE SetMin({LowBit(AbsI(cs[i])) : i \in {j \in DOMAIN cs : cs[j] # 0}})
\* __rshift__ in expand mode: the fraction grows by the bits that would fall off
RShiftExpand(cs, t, n) ==
   LET mp == MinPow2(cs)
       ex == IF mp # NONE_ /\ n > mp THEN n - mp ELSE 0
       tz == [s |-> t.s, w |-> t.w + ex, f |-> t.f + ex]
   IN [fmt |-> tz, codes |-> [i \in DOMAIN cs |-> StoreAlgo(cs[i] \div Pow2(n - ex), 0, tz, "trunc", "saturate", TRUE).code]]
\* int(np.max(np.ceil(np.log2(np.abs(val) + 0.5)))): bit length of the largest magnitude (-1 for all zeros)
RECURSIVE BitLenNat(_)
BitLenNat(n) == IF n = 0 THEN 0 ELSE 1 + BitLenNat(n \div 2)
CeilLog2Half(c) == IF c = 0 THEN -1 ELSE BitLenNat(AbsI(c))
LShiftExpand(cs, t, n) ==
   LET mag == SetMax({CeilLog2Half(cs[i]) : i \in DOMAIN cs})
       w2 == MaxOf(t.w, mag + Bit01(t.s) + n)
       tz == [s |-> t.s, w |-> w2, f |-> t.f]
   IN [fmt |-> tz, codes |-> [i \in DOMAIN cs |-> StoreAlgo(cs[i] * Pow2(n), 0, tz, "trunc", "saturate", TRUE).code]]
\* trunc / keep: y = deepcopy; y.val = y.val >> n       (format unchanged, arithmetic shift)
RShiftKeep(cs, t, n) == [fmt |-> t, codes |-> [i \in DOMAIN cs |-> cs[i] \div Pow2(n)]]
\* trunc / keep <<: a FRESH default-config object of the same sizes stores val << n raw (so it always clamps)
LShiftKeep(cs, t, n) == [fmt |-> t, codes |-> [i \in DOMAIN cs |-> StoreAlgo(cs[i] * Pow2(n), 0, t, "trunc", "saturate", TRUE).code]]
=============================================================================
