------------------------------ MODULE Machine -------------------------------
(***************************************************************************)
(* DESIGN-LEVEL model of the numeric carriers fxpmath switches between,    *)
(* with the machine word length MW and the float significand MF as         *)
(* CONSTANTS (64 and 53 in reality; 8 and 5 in the model):                 *)
(*   "i" / "u" : NumPy int-MW / uint-MW arrays - wrap modulo 2^MW silently, *)
(*               a Python-integer scalar out of their range raises         *)
(*   "f"       : float with an MF-bit significand (int-MW mixed with       *)
(*               uint-MW is promoted to it), round to nearest even         *)
(*   "o"       : Python integers (object arrays) - exact                   *)
(* and the DECISION RULES that choose between them in the raw arithmetic   *)
(* path: the rule of the pinned tree (Python integers only when n_frac >=  *)
(* MW) and the repaired rule of functions._raw_vals (Python integers when  *)
(* the intermediate needs MW-1 bits or more, else both operands as int-MW).*)
(* TLC asks, for every pair of formats up to MW+1 bits and extreme / near  *)
(* extreme codes: is the result exact (NoSilentError) and is no exception  *)
(* raised (NoError)?  The pinned rule must FAIL, the repaired rule must    *)
(* hold.  Informational for C19: the property itself is decided on exact   *)
(* results of the real code; this model localises WHY the boundary is      *)
(* where it is and lets a candidate rule be checked before it is coded.    *)
(***************************************************************************)
EXTENDS Integers, TLC
CONSTANTS MW, MF

ERR == [k |-> "ERR", v |-> 0]
Pow2(n) == 2^n
Abs(n) == IF n < 0 THEN -n ELSE n
Max(a, b) == IF a >= b THEN a ELSE b
Bit(b) == IF b THEN 1 ELSE 0
RECURSIVE BitLen(_)
BitLen(n) == IF n = 0 THEN 0 ELSE 1 + BitLen(n \div 2)
WrapS(n) == LET m == n % Pow2(MW) IN IF m >= Pow2(MW - 1) THEN m - Pow2(MW) ELSE m
WrapU(n) == n % Pow2(MW)
FitsS(n) == n >= -Pow2(MW - 1) /\ n < Pow2(MW - 1)
FitsU(n) == n >= 0 /\ n < Pow2(MW)
\* round an integer to MF significant bits, ties to even
RoundF(n) == LET a == Abs(n)  bl == BitLen(a) IN
   IF bl <= MF THEN n ELSE
   LET sh == bl - MF  q == a \div Pow2(sh)  r == a % Pow2(sh)  h == Pow2(sh - 1)
       up == r > h \/ (r = h /\ q % 2 = 1)
       ra == (IF up THEN q + 1 ELSE q) * Pow2(sh)
   IN IF n < 0 THEN -ra ELSE ra
\* how a stored code is held: object for words >= MW, else int-MW / uint-MW
Storage(t, c) == IF t.w >= MW THEN [k |-> "o", v |-> c] ELSE IF t.s THEN [k |-> "i", v |-> c] ELSE [k |-> "u", v |-> c]
\* array * Python-integer scalar
MulScalar(a, p) ==
   IF a = ERR THEN ERR
   ELSE IF a.k = "o" THEN [k |-> "o", v |-> a.v * p]
   ELSE IF a.k = "i" THEN (IF FitsS(p) THEN [k |-> "i", v |-> WrapS(a.v * p)] ELSE ERR)
   ELSE (IF FitsU(p) THEN [k |-> "u", v |-> WrapU(a.v * p)] ELSE ERR)
Bin(a, b, Op(_, _)) ==
   IF a = ERR \/ b = ERR THEN ERR
   ELSE IF a.k = "o" \/ b.k = "o" THEN [k |-> "o", v |-> Op(a.v, b.v)]
   ELSE IF a.k = "i" /\ b.k = "i" THEN [k |-> "i", v |-> WrapS(Op(a.v, b.v))]
   ELSE IF a.k = "u" /\ b.k = "u" THEN [k |-> "u", v |-> WrapU(Op(a.v, b.v))]
   ELSE [k |-> "f", v |-> RoundF(Op(RoundF(a.v), RoundF(b.v)))]           \* int-MW with uint-MW: promoted to float
AsObj(a) == [k |-> "o", v |-> a.v]
AsInt(a) == [k |-> "i", v |-> WrapS(a.v)]                                 \* .astype(int-MW)
NInt(t) == t.w - t.f - Bit(t.s)
GrowAdd(x, y) == LET s == x.s \/ y.s  ni == Max(NInt(x), NInt(y)) + 1  f == Max(x.f, y.f) IN [s |-> s, w |-> ni + f + Bit(s), f |-> f]
GrowMul(x, y) == [s |-> x.s \/ y.s, w |-> x.w + y.w, f |-> x.f + y.f]
OpOf(op, a, b) == CASE op = "add" -> a + b [] op = "sub" -> a - b [] op = "mul" -> a * b
Exact(op, x, cx, y, cy) == IF op = "mul" THEN cx * cy
                           ELSE LET f == Max(x.f, y.f) IN OpOf(op, cx * Pow2(f - x.f), cy * Pow2(f - y.f))
\* ---- the rule of the pinned tree: precision_cast iff n_frac >= MW; for mul also raw_cast iff x.w + y.w >= MW
RawPinned(op, x, cx, y, cy) ==
   LET sx == Storage(x, cx)  sy == Storage(y, cy) IN
   IF op = "mul"
   THEN LET c == x.w + y.w >= MW IN Bin(IF c THEN AsObj(sx) ELSE sx, IF c THEN AsObj(sy) ELSE sy, LAMBDA a, b : a * b)
   ELSE LET f == Max(x.f, y.f)  cast == f >= MW
            ax == IF cast THEN MulScalar(AsObj(sx), Pow2(f - x.f)) ELSE MulScalar(sx, Pow2(f - x.f))
            ay == IF cast THEN MulScalar(AsObj(sy), Pow2(f - y.f)) ELSE MulScalar(sy, Pow2(f - y.f))
        IN Bin(ax, ay, LAMBDA a, b : OpOf(op, a, b))
\* ---- the repaired rule (functions._raw_vals): Python integers iff the intermediate needs >= MW-1 bits, else both as int-MW
RawFixed(op, x, cx, y, cy) ==
   LET sx == Storage(x, cx)  sy == Storage(y, cy)
       f == Max(x.f, y.f)
       nbits == IF op = "mul" THEN x.w + y.w ELSE Max(x.w + (f - x.f), y.w + (f - y.f)) + 1
       obj == nbits >= MW - 1 \/ sx.k = "o" \/ sy.k = "o"
       vx == IF obj THEN AsObj(sx) ELSE AsInt(sx)
       vy == IF obj THEN AsObj(sy) ELSE AsInt(sy)
   IN IF op = "mul" THEN Bin(vx, vy, LAMBDA a, b : a * b)
      ELSE Bin(MulScalar(vx, Pow2(f - x.f)), MulScalar(vy, Pow2(f - y.f)), LAMBDA a, b : OpOf(op, a, b))
=============================================================================
