------------------------------- MODULE FxpBest ------------------------------
(* Transcription of Fxp._init_size + set_best_sizes (objects.py 354-385, 505-595) on exact dyadics. *)
(* Values are integers scaled by 2^S:  v = V / 2^S.  Native-Int prototype (small world).            *)
EXTENDS Integers, Sequences, FiniteSets, TLC, Json
CONSTANTS S,        \* scale bits of the value representation
          NWMAX     \* config.n_word_max (64 in reality; 8 in the scaled world)
NONE == -99         \* "argument not given"
Pow2(n) == 2^n
Abs(n) == IF n < 0 THEN -n ELSE n
Max(a,b) == IF a >= b THEN a ELSE b
Min(a,b) == IF a <= b THEN a ELSE b
SetMax(T) == CHOOSE x \in T : \A y \in T : y <= x
SetMin(T) == CHOOSE x \in T : \A y \in T : x <= y
Bit(b) == IF b THEN 1 ELSE 0
One == Pow2(S)
\* np.abs(val % 1): python modulo, result in [0,1)
Frac(V) == V % One
\* the while loop: e = 1.0; n = 0; while e > max_error and n <= max_n_frac and r > 0: ...
\* max_error = 2^-63 is below the resolution 2^-S of the small world, so  e > max_error  <=>  e # 0
RECURSIVE FracLoop(_,_,_,_)
FracLoop(R, n, E, maxN) ==
   IF E # 0 /\ n <= maxN /\ R > 0
   THEN LET n1 == n + 1
            Ri == R - (IF n1 <= S THEN Pow2(S - n1) ELSE 0)     \* 0.5**n1 ; exact while n1 <= S
        IN FracLoop(IF Ri >= 0 THEN Ri ELSE R, n1, Abs(Ri), maxN)
   ELSE n
FracBits(V, maxN) == FracLoop(Frac(V), 0, One, maxN)
\* int(x) truncates toward zero
TruncDiv(a, d) == IF a >= 0 THEN a \div d ELSE -((-a) \div d)
\* val_max = int(np.max(val)*(1 << n_frac))
ScaledInt(V, nf) == IF nf <= S THEN TruncDiv(V, Pow2(S - nf)) ELSE V * Pow2(nf - S)
\* python >> on ints floors
Shr(a, k) == a \div Pow2(k)
RECURSIVE IntLoop(_,_,_,_)
IntLoop(vmax, vmin, n, limit) ==
   IF n < limit
   THEN LET mx == Shr(vmax, n) + (IF vmax < 0 THEN 1 ELSE 0)
            mn == Shr(vmin, n) + (IF vmin < 0 THEN 1 ELSE 0)
        IN IF mx = 0 /\ mn = 0 THEN n ELSE IntLoop(vmax, vmin, n + 1, limit)
   ELSE n
\* set_best_sizes for val # None, not raw.  Vs: non-empty set of scaled values. returns [w, f]
BestSizes(Vs, signed, nWord, nFrac) ==
   LET sign == Bit(signed)
       nf0 == IF nFrac = NONE THEN SetMax({FracBits(V, NWMAX - sign) : V \in Vs}) ELSE nFrac
       vmax == ScaledInt(SetMax(Vs), nf0)
       vmin == ScaledInt(SetMin(Vs), nf0)
       ni0 == IntLoop(vmax, vmin, 0, NWMAX - sign + Max(nf0, 0))     \* (the scaled values have nf0 bits more than their integer parts)
       ni == Max(ni0 - nf0, 0)
       wf == IF nWord = NONE
             THEN LET f == Min(NWMAX - sign - ni, nf0) IN [w |-> f + ni + sign, f |-> f]
             ELSE [w |-> nWord, f |-> Min(nWord - sign - ni, nf0)]
   IN [w |-> Min(wf.w, NWMAX), f |-> wf.f]
\* _init_size
InitSize(Vs, signedArg, nWord, nFrac, nInt) ==      \* signedArg \in {"none", "T", "F"}
   LET signed == signedArg # "F"
       sg == Bit(signed)
       nw1 == IF nWord = NONE /\ nFrac # NONE /\ nInt # NONE THEN nInt + nFrac + sg ELSE nWord
       nf1 == IF nFrac = NONE /\ nWord # NONE /\ nInt # NONE THEN nWord - nInt - sg ELSE nFrac
   IN IF nw1 = NONE \/ nf1 = NONE
      THEN LET b == BestSizes(Vs, signed, nw1, nf1) IN [s |-> signed, w |-> b.w, f |-> b.f]
      ELSE [s |-> signed, w |-> nw1, f |-> nf1]

\* ---------- property level: the minimal exact format
ExactF(V) == CHOOSE f \in 0..S : (V % Pow2(S - f) = 0) /\ \A g \in 0..(f-1) : V % Pow2(S - g) # 0
MinF(Vs) == SetMax({ExactF(V) : V \in Vs})
Code(V, f) == V \div Pow2(S - f)               \* exact when f >= ExactF(V)
Fits(c, signed, w) == IF signed THEN c >= -Pow2(w-1) /\ c <= Pow2(w-1) - 1 ELSE c >= 0 /\ c <= Pow2(w) - 1
HoldsAll(Vs, signed, f, w) == /\ w >= f + Bit(signed)
                              /\ (w >= 1 \/ ~signed)
                              /\ \A V \in Vs : (IF w = 0 THEN Code(V, f) = 0 ELSE Fits(Code(V, f), signed, w))
MinW(Vs, signed, f) == CHOOSE w \in 0..40 : HoldsAll(Vs, signed, f, w) /\ \A u \in 0..(w-1) : ~HoldsAll(Vs, signed, f, u)
MinimalFmt(Vs, signed) == LET f == MinF(Vs) IN [s |-> signed, w |-> MinW(Vs, signed, f), f |-> f]
===========================================================================
