------------------------------- MODULE FxpText ------------------------------
(* bin/hex/base_repr images, string parsers and dtype strings, on sequences of *)
(* character codes (TLA+ strings are atomic).                                   *)
EXTENDS FxpOps
=============================================================================
