------------------------------- MODULE FxpText ------------------------------
(***************************************************************************)
(* bin / hex / base_repr images of a code and dtype strings, on sequences  *)
(* of character codes (TLA+ strings are atomic).  Property level (C11,     *)
(* C12), functor over the Z interface so that the same definitions render  *)
(* 256-bit codes.  The implementation-shaped PARSERS are in FxpParse.      *)
(***************************************************************************)
EXTENDS FxpOps

CH0 == 48   CH1 == 49   CHDOT == 46   CHMINUS == 45   CHPLUS == 43   CHSLASH == 47
CHb == 98   CHx == 120  CHA == 65     CHa == 97       CHHASH == 35
\* "fxp-"  "-complex"  "Q"  "UQ"  "S"  "U"
S_fxp == <<102, 120, 112, 45>>
S_complex == <<45, 99, 111, 109, 112, 108, 101, 120>>
S_0b == <<CH0, CHb>>
S_0x == <<CH0, CHx>>

(****************************** binary image *******************************)
\* the n_word-character two's-complement image of the code, MSB first
BinImage(c, w) == LET u == ZMod2(c, w) IN [i \in 1..w |-> CH0 + ZBit(u, w - i)]
\* binary point f digits from the right, 0 <= f <= w   ("101." for f = 0, ".101" for f = w)
WithPoint(img, f) == LET w == Len(img) IN SubSeq(img, 1, w - f) \o <<CHDOT>> \o SubSeq(img, w - f + 1, w)
BinString(c, t, point, prefix) ==
   LET img == BinImage(c, t.w)
       body == IF point THEN WithPoint(img, t.f) ELSE img
   IN prefix \o body

(******************************** hex image ********************************)
NHex(w) == (w + 3) \div 4
HexDigitCh(d) == IF d < 10 THEN CH0 + d ELSE CHA + d - 10          \* upper case
\* digit j (0 = least significant) of the n_word-bit pattern
HexDigitAt(u, j) == ZBit(u, 4*j) + 2 * ZBit(u, 4*j + 1) + 4 * ZBit(u, 4*j + 2) + 8 * ZBit(u, 4*j + 3)
HexImage(c, w) == LET u == ZMod2(c, w)  n == NHex(w) IN [i \in 1..n |-> HexDigitCh(HexDigitAt(u, n - i))]
HexString(c, t, prefix) == prefix \o HexImage(c, t.w)

(************************ sign-magnitude numerals **************************)
\* value of a digit character in bases up to 36 (upper-case letters), -1 if not a digit
DigitVal(ch) == IF ch >= CH0 /\ ch <= CH0 + 9 THEN ch - CH0
                ELSE IF ch >= CHA /\ ch <= CHA + 25 THEN ch - CHA + 10 ELSE -1
\* the natural number a numeral denotes in base b (Horner), as a Z
NumeralValue(s, b) ==
   LET RECURSIVE h(_)
       h(i) == IF i = 0 THEN Z0 ELSE ZAdd(ZMul(h(i - 1), ZI(b)), ZI(DigitVal(s[i])))
   IN h(Len(s))
\* s is THE sign-magnitude numeral of c in base b: optional '-', canonical digits, right value
IsBaseRepr(s, c, b) ==
   LET neg == Len(s) >= 1 /\ s[1] = CHMINUS
       d == IF neg THEN Tail(s) ELSE s
   IN /\ Len(d) >= 1
      /\ \A i \in DOMAIN d : DigitVal(d[i]) >= 0 /\ DigitVal(d[i]) < b
      /\ (Len(d) > 1 => d[1] # CH0)                      \* no leading zeros
      /\ neg = ZIsNeg(c)
      /\ NumeralValue(d, b) = ZAbs(c)

(******************************* dtype strings *****************************)
\* decimal numeral of a native integer
RECURSIVE NatChars(_)
NatChars(n) == IF n < 10 THEN <<CH0 + n>> ELSE NatChars(n \div 10) \o <<CH0 + (n % 10)>>
IntChars(n) == IF n < 0 THEN <<CHMINUS>> \o NatChars(-n) ELSE NatChars(n)
\* 'fxp-s8/3', 'fxp-u16/-2-complex'
FxpString(t, cplx) == S_fxp \o <<IF t.s THEN 115 ELSE 117>> \o NatChars(t.w) \o <<CHSLASH>> \o IntChars(t.f)
                      \o (IF cplx THEN S_complex ELSE <<>>)
\* 'Q5.3' / 'UQ5.3':  m.n with n_word = m + n, the sign bit counted in m
QString(t) == (IF t.s THEN <<81>> ELSE <<85, 81>>) \o IntChars(t.w - t.f) \o <<CHDOT>> \o IntChars(t.f)
\* the equivalent S/U spelling accepted by the parser
SUString(t) == (IF t.s THEN <<83>> ELSE <<85>>) \o IntChars(t.w - t.f) \o <<CHDOT>> \o IntChars(t.f)
DtypeString(t, cplx, notation) == IF notation = "Q" THEN QString(t) ELSE FxpString(t, cplx)
Lower(s) == [i \in DOMAIN s |-> IF s[i] >= 65 /\ s[i] <= 90 THEN s[i] + 32 ELSE s[i]]
Upper(s) == [i \in DOMAIN s |-> IF s[i] >= 97 /\ s[i] <= 122 THEN s[i] - 32 ELSE s[i]]
=============================================================================
