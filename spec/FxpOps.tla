------------------------------- MODULE FxpOps -------------------------------
(* Property-level operations on stored values: arithmetic, growth rules,     *)
(* conversions, division relations, bitwise, shifts, comparisons, reductions. *)
EXTENDS FxpMath
=============================================================================
