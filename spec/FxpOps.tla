------------------------------- MODULE FxpOps -------------------------------
(***************************************************************************)
(* Property-level operations on stored values: exact arithmetic and the    *)
(* documented growth rules (C07), imposed result formats (C08), division   *)
(* relations (C09), the minimal format of a set of values (C06), bitwise   *)
(* patterns (C13), shifts (C14), comparisons and numeric conversions       *)
(* (C16), scale/bias (C17), reductions (C15).                              *)
(***************************************************************************)
EXTENDS FxpMath

(************************ growth rules as documented ************************)
GrowAdd(x, y) == LET s == x.s \/ y.s
                     ni == MaxI(NInt(x), NInt(y)) + 1
                     f == MaxI(x.f, y.f)
                 IN [s |-> s, w |-> ni + f + BitOf(s), f |-> f]
GrowMul(x, y) == [s |-> x.s \/ y.s, w |-> x.w + y.w, f |-> x.f + y.f]
GrowTrueDiv(x, y) == LET s == x.s \/ y.s
                         ni == NInt(x) + y.f + BitOf(s)
                         f == x.f + NInt(y)
                     IN [s |-> s, w |-> BitOf(s) + ni + f, f |-> f]
GrowFloorDiv(x, y) == LET s == x.s \/ y.s
                          ni == NInt(x) + y.f + BitOf(s)
                      IN [s |-> s, w |-> BitOf(s) + ni, f |-> 0]
GrowMod(x, y) == LET s == x.s \/ y.s
                     ni == IF s THEN MaxI(NInt(x), NInt(y)) ELSE MinI(NInt(x), NInt(y))
                     f == MaxI(x.f, y.f)
                 IN [s |-> s, w |-> BitOf(s) + ni + f, f |-> f]
Grow(op, x, y) == CASE op \in {"add", "sub"} -> GrowAdd(x, y)
                    [] op = "mul" -> GrowMul(x, y)
                    [] op = "truediv" -> GrowTrueDiv(x, y)
                    [] op = "floordiv" -> GrowFloorDiv(x, y)
                    [] op = "mod" -> GrowMod(x, y)

\* result format imposed by a sizing policy (functions._get_sizing): the signedness is the OR of
\* the operands', integer and fraction lengths come from the policy
ByInts(s, ni, f) == [s |-> s, w |-> BitOf(s) + ni + f, f |-> f]
ImposedFmt(policy, op, x, y) ==
   LET s == x.s \/ y.s IN
   CASE policy = "optimal"  -> Grow(op, x, y)
     [] policy = "same"     -> ByInts(s, NInt(x), x.f)
     [] policy = "largest"  -> ByInts(s, MaxI(NInt(x), NInt(y)), MaxI(x.f, y.f))
     [] policy = "smallest" -> ByInts(s, MinI(NInt(x), NInt(y)), MinI(x.f, y.f))

(****************************** exact results *******************************)
ExactOp(op, cx, tx, cy, ty) ==
   LET vx == ValueOf(cx, tx)  vy == ValueOf(cy, ty) IN
   CASE op = "add" -> DAdd(vx, vy) [] op = "sub" -> DSub(vx, vy) [] op = "mul" -> DMul(vx, vy)
\* the result of op into format tz under modes (r, o): exact result quantized once (C08)
ArithInto(op, cx, tx, cy, ty, tz, r, o) == Quantize(ExactOp(op, cx, tx, cy, ty), tz, r, o)

(**************************** division (C09) ********************************)
(* Everything is stated by cross-multiplication on integers; no rationals.  *)
(* x = cx*2^-fx, y = cy*2^-fy (cy # 0), z = cz*2^-fz.                       *)
(*   x / y  compared with  z :   cx * 2^(fy - fx + fz)   vs   cz * cy        *)
SgnMul(a, neg) == IF neg THEN ZNeg(a) ELSE a
\* numerator N and positive denominator Dn with x/y * 2^fz = N / Dn, as integers scaled by 2^k (k >= 0)
DivNum(cx, tx, cy, ty, fz) ==
   LET e == ty.f - tx.f + fz                \* x/y*2^fz = cx*2^e / cy
       n0 == IF e >= 0 THEN ZShl(cx, e) ELSE cx
   IN SgnMul(n0, ZIsNeg(cy))
DivDen(cx, tx, cy, ty, fz) ==
   LET e == ty.f - tx.f + fz
       d0 == IF e >= 0 THEN ZAbs(cy) ELSE ZShl(ZAbs(cy), -e)
   IN d0
\* cz = floor(N/Dn)   <=>   cz*Dn <= N < (cz+1)*Dn
IsFloorOf(cz, n, dn) == ZLe(ZMul(cz, dn), n) /\ ZLt(n, ZMul(ZAdd(cz, Z1), dn))
IsCeilOf(cz, n, dn)  == ZLt(ZMul(ZSub(cz, Z1), dn), n) /\ ZLe(n, ZMul(cz, dn))
IsExactQuot(cz, n, dn) == ZMul(cz, dn) = n
\* C09 true division: exact when representable, else one of the two neighbours
TrueDivOK(cx, tx, cy, ty, cz, tz) ==
   LET n == DivNum(cx, tx, cy, ty, tz.f)  dn == DivDen(cx, tx, cy, ty, tz.f)
   IN IsFloorOf(cz, n, dn) \/ IsCeilOf(cz, n, dn)
\* x // y = floor(x/y) as a VALUE (an integer q); stored in format tz it is q*2^fz
FloorQuotIs(q, cx, tx, cy, ty) ==
   IsFloorOf(q, DivNum(cx, tx, cy, ty, 0), DivDen(cx, tx, cy, ty, 0))
\* x % y = x - y*floor(x/y):   value(cz, tz) + y*q = x
ModIs(cz, tz, q, cx, tx, cy, ty) ==
   DEq(DAdd(ValueOf(cz, tz), DMul(ValueOf(cy, ty), DOfInt(q))), ValueOf(cx, tx))

(************************ minimal format of values (C06) ********************)
\* vs: non-empty sequence of dyadics
SeqMaxI(f(_), n) == LET RECURSIVE mx(_)  mx(i) == IF i = 1 THEN f(1) ELSE MaxI(f(i), mx(i - 1)) IN mx(n)
MinFrac(vs) == SeqMaxI(LAMBDA i : MinFracOf(vs[i]), Len(vs))
CodeAt(d, f) == FloorD(Scale(d, f))                    \* exact when f >= MinFracOf(d)
MinWord(vs, signed, f) ==
   MaxI(SeqMaxI(LAMBDA i : MinWordOf(CodeAt(vs[i], f), signed), Len(vs)), f + BitOf(signed))
MinimalFmt(vs, signed) == LET f == MinFrac(vs) IN [s |-> signed, w |-> MinWord(vs, signed, f), f |-> f]

(****************************** bitwise (C13) *******************************)
\* the n-bit two's-complement pattern of a code, MSB first, as a sequence of 0/1
Pattern(c, w) == LET u == ZMod2(c, w) IN [i \in 1..w |-> ZBit(u, w - i)]
\* the unsigned integer a pattern denotes
PatToNat(p) == LET RECURSIVE h(_)  h(i) == IF i = 0 THEN Z0 ELSE ZAdd(ZShl(h(i - 1), 1), ZI(p[i])) IN h(Len(p))
\* reinterpret an n-bit unsigned image in format t
FromImage(u, t) == IF t.s /\ ZLe(ZPow2(t.w - 1), u) THEN ZSub(u, ZPow2(t.w)) ELSE u
PatNot(p) == [i \in DOMAIN p |-> 1 - p[i]]
PatAnd(p, q) == [i \in DOMAIN p |-> IF p[i] = 1 /\ q[i] = 1 THEN 1 ELSE 0]
PatOr(p, q)  == [i \in DOMAIN p |-> IF p[i] = 1 \/ q[i] = 1 THEN 1 ELSE 0]
PatXor(p, q) == [i \in DOMAIN p |-> IF p[i] # q[i] THEN 1 ELSE 0]
BitwiseOp(op, p, q) == CASE op = "and" -> PatAnd(p, q) [] op = "or" -> PatOr(p, q) [] op = "xor" -> PatXor(p, q)

(************************ comparisons, conversions (C16) ********************)
Rel(op, a, b) == CASE op = "lt" -> DLt(a, b) [] op = "le" -> DLe(a, b) [] op = "eq" -> DEq(a, b)
                   [] op = "ne" -> ~DEq(a, b) [] op = "gt" -> DLt(b, a) [] op = "ge" -> DLe(b, a)
URaw(c, t) == ZMod2(c, t.w)

(**************************** reductions (C15) ******************************)
(* A fixed-point array is a matrix M = sequence of rows of integer codes in  *)
(* format t (a 1-D array of length n is the 1 x n matrix, reduced along      *)
(* axis "1").  Every result is a sequence of DYADICS (row-major), so that    *)
(* products, whose exponent depends on the number of factors, fit too.       *)
RECURSIVE ZSumSeq(_)
ZSumSeq(q) == IF q = <<>> THEN Z0 ELSE ZAdd(Head(q), ZSumSeq(Tail(q)))
RECURSIVE ZProdSeq(_)
ZProdSeq(q) == IF q = <<>> THEN Z1 ELSE ZMul(Head(q), ZProdSeq(Tail(q)))
RECURSIVE ZMaxSeq(_)
ZMaxSeq(q) == IF Len(q) = 1 THEN q[1] ELSE ZMax(Head(q), ZMaxSeq(Tail(q)))
RECURSIVE ZMinSeq(_)
ZMinSeq(q) == IF Len(q) = 1 THEN q[1] ELSE ZMin(Head(q), ZMinSeq(Tail(q)))
RECURSIVE FlatRows(_)
FlatRows(M) == IF M = <<>> THEN <<>> ELSE Head(M) \o FlatRows(Tail(M))
NRows(M) == Len(M)
NCols(M) == Len(M[1])
ColOf(M, j) == [i \in 1..NRows(M) |-> M[i][j]]
TransposeM(M) == [j \in 1..NCols(M) |-> ColOf(M, j)]
Prefix(q, i) == SubSeq(q, 1, i)
\* insertion sort (ascending)
RECURSIVE InsertSorted(_,_)
InsertSorted(q, x) == IF q = <<>> THEN <<x>> ELSE IF ZLe(x, Head(q)) THEN <<x>> \o q ELSE <<Head(q)>> \o InsertSorted(Tail(q), x)
RECURSIVE SortSeq(_)
SortSeq(q) == IF q = <<>> THEN <<>> ELSE InsertSorted(SortSeq(Tail(q)), Head(q))
\* lanes along which an axis-wise function works: "none" -> one lane with everything, "0" -> columns, "1" -> rows
Lanes(M, ax) == CASE ax = "none" -> <<FlatRows(M)>> [] ax = "0" -> TransposeM(M) [] ax = "1" -> M
DSeq(q, e) == [i \in DOMAIN q |-> [m |-> q[i], e |-> e]]
\* reductions: one value per lane
RedSum(M, ax, f)  == LET L == Lanes(M, ax) IN [i \in DOMAIN L |-> [m |-> ZSumSeq(L[i]), e |-> -f]]
RedProd(M, ax, f) == LET L == Lanes(M, ax) IN [i \in DOMAIN L |-> [m |-> ZProdSeq(L[i]), e |-> -f * Len(L[i])]]
RedMax(M, ax, f)  == LET L == Lanes(M, ax) IN [i \in DOMAIN L |-> [m |-> ZMaxSeq(L[i]), e |-> -f]]
RedMin(M, ax, f)  == LET L == Lanes(M, ax) IN [i \in DOMAIN L |-> [m |-> ZMinSeq(L[i]), e |-> -f]]
\* lane-wise maps returning a matrix with the lanes' orientation restored, flattened row-major
Unlane(R, ax) == CASE ax = "none" -> R[1] [] ax = "0" -> FlatRows(TransposeM(R)) [] ax = "1" -> FlatRows(R)
CumSumM(M, ax, f) == LET L == Lanes(M, ax)
                         R == [i \in DOMAIN L |-> [j \in DOMAIN L[i] |-> [m |-> ZSumSeq(Prefix(L[i], j)), e |-> -f]]]
                     IN Unlane(R, ax)
CumProdM(M, ax, f) == LET L == Lanes(M, ax)
                          R == [i \in DOMAIN L |-> [j \in DOMAIN L[i] |-> [m |-> ZProdSeq(Prefix(L[i], j)), e |-> -f * j]]]
                      IN Unlane(R, ax)
SortM(M, ax, f) == LET L == Lanes(M, ax)
                       R == [i \in DOMAIN L |-> DSeq(SortSeq(L[i]), -f)]
                   IN Unlane(R, ax)
\* clip between two codes of the same format (bounds given on x's grid)
ClipM(M, lo, hi, f) == DSeq([i \in DOMAIN FlatRows(M) |-> ZMax(lo, ZMin(hi, FlatRows(M)[i]))], -f)
TransposeFlat(M, f) == DSeq(FlatRows(TransposeM(M)), -f)
\* diagonal with offset k (k >= 0: above the main diagonal, k < 0: below)
DiagIdx(M, k) == { i \in 1..NRows(M) : i + k >= 1 /\ i + k <= NCols(M) }
DiagSeq(M, k) == LET I == DiagIdx(M, k)
                     lo == IF k >= 0 THEN 1 ELSE 1 - k
                 IN [n \in 1..(IF I = {} THEN 0 ELSE CHOOSE c \in 0..NRows(M) : c = (IF k >= 0 THEN MinI(NRows(M), NCols(M) - k) ELSE MinI(NRows(M) + k, NCols(M))))
                       |-> M[lo + n - 1][lo + n - 1 + k]]
DiagonalM(M, k, f) == DSeq(DiagSeq(M, k), -f)
TraceM(M, k, f) == <<[m |-> ZSumSeq(DiagSeq(M, k)), e |-> -f]>>
\* matrix product  A (r x n) . B (n x c)
DotM(A, B, fa, fb) ==
   LET BT == TransposeM(B)
       cell(i, j) == ZSumSeq([k \in 1..NCols(A) |-> ZMul(A[i][k], BT[j][k])])
   IN DSeq(FlatRows([i \in 1..NRows(A) |-> [j \in 1..NRows(BT) |-> cell(i, j)]]), -(fa + fb))
\* documented growth: ceil(log2(n)) extra word bits for n-term sums
CeilLog2(n) == CHOOSE k \in 0..31 : 2^k >= n /\ (k = 0 \/ 2^(k - 1) < n)
=============================================================================
