CONSTANTS a = a
b = b
c = c
Obj = {a, b, c}
NULL = NULL
ObjSeq <- ObjSeqDef
FmtSel = {1, 2, 5}
RndSel = {1, 2}
OvfSel = {1, 2}
GridSel = {2, 3, 4, 5}
Acts <- ActsExt
Depth = 8
EXT = 4
INIT Init
NEXT Next
CHECK_DEADLOCK FALSE
VIEW View
INVARIANT WellFormed
INVARIANT ViewsOnly
INVARIANT NoSharedConfig
\* PROPERTY SourceUnchanged
\* PROPERTY NonInterference
\* PROPERTY ViewWriteThrough
\* PROPERTY Sticky
\* PROPERTY FlagIff
\* PROPERTY InaccPropagates
\* PROPERTY ShiftExact
\* PROPERTY ReduceExact
\* PROPERTY BitKeepsFormat
\* PROPERTY IOpRebinds
INVARIANT EmitFull
