CONSTANTS B = 4
LB = 2
W = 3
INIT Init
NEXT Next
CHECK_DEADLOCK FALSE
INVARIANT I_QuantizeAgrees
INVARIANT I_ArithAgrees
INVARIANT I_TextAgrees
