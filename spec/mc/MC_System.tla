------------------------------ MODULE MC_System ------------------------------
(* Instances of FxpSystem: the constants that cfg files cannot express (sets of strings, model values) *)
EXTENDS FxpSystem
CONSTANTS a, b, c
ObjSeqDef == IF c \in Obj THEN <<a, b, c>> ELSE <<a, b>>
ActsC20 == {"New", "NewLike", "Store", "SetItem", "SetItemFxp", "GetItem", "CtorLike", "Like", "DeepCopy", "Resize", "Reset", "SetCfg", "SetCfgBad", "BinOp", "Neg", "Assign", "RShiftKeep", "LShiftKeep", "Invert"}
ActsC20Neg == (ActsC20 \ {"Like"}) \cup {"LikeShallow"}
ActsC04 == {"New1", "Store", "SetItem", "SetItemFxp", "GetItem", "Reset", "BinOp", "BinOpOut", "Resize", "SetCfg", "Assign"}
\* (the quick instance of C04 has one rounding and one overflow mode, so SetCfg is never enabled there: the thorough instance, the C20
\* instance and the probe appended to every replayed behaviour reconfigure objects)
ActsC04q == ActsC04 \ {"SetCfg"}
ActsC02 == {"New1", "Store", "SetItem", "SetItemFxp", "GetItem", "CtorLike", "Like", "DeepCopy", "Resize", "BinOp", "Neg", "Assign", "SetCfg"}
\* the extension instance: the rest of C20's list of deriving operations (bitwise, expanding shifts, NumPy reductions, constants,
\* in-place operators, raw stores) together with the mutations that expose sharing
ActsExt == {"New1", "GetItem", "SetItem", "BitOp", "BitMask", "ShiftExpand", "Reduce", "BinOpConst", "IOp", "SetRaw", "BinOpSub", "SetCfg"}
ActsAll == ActsC02 \cup {"CopyShallow", "Reset", "SetCfgBad", "Drop"}
=============================================================================
