CONSTANTS W = 4
FLO = 1
FHI = 1
NEEDNINT = FALSE
INIT Init
NEXT Next
CHECK_DEADLOCK FALSE
INVARIANT I_DivOK
INVARIANT I_FloorModOK
INVARIANT EmitDiv
