CONSTANTS W = 4
FLO = 8
FHI = 8
INIT Init
NEXT Next
CHECK_DEADLOCK FALSE
INVARIANT I_AlgoIsMath
INVARIANT I_InRangeAlways
INVARIANT I_FlagIff
INVARIANT I_SatSide
INVARIANT Emit
