------------------------------ MODULE MC_Arith ------------------------------
(***************************************************************************)
(* Exhaustive small world for two-operand arithmetic (C07, C08, C09).      *)
(* One TLC state per PAIR OF FORMATS (any signedness mix, n_word <= W,     *)
(* FLO <= n_frac <= n_word + FHI); inside each state every pair of codes.  *)
(*  - C07: with the documented growth rules the raw-path algorithm returns *)
(*    the exact result, no flag (unsigned negative difference = quantized) *)
(*  - C08: for every sizing policy and all 10 governing modes the raw      *)
(*    path, the repr path and "exact result quantized once" coincide       *)
(*  - C09: the pre-scaled floor division satisfies the neighbour relation, *)
(*    never overflows; floor-division and modulo are exact                 *)
(*  - Emit prints one case row per format pair for the replay harness      *)
(***************************************************************************)
EXTENDS Integers, Sequences, TLC, Json
CONSTANTS W, FLO, FHI, NEEDNINT      \* NEEDNINT: restrict to formats with n_int >= 0 (C08 domain)
N == INSTANCE FxpN
A == INSTANCE FxpAlgo WITH MW <- 30
VARIABLES tx, ty, ph
vars == <<tx, ty, ph>>
Fmts == { t \in [s : BOOLEAN, w : 1..W, f : (-FLO)..(W + FHI)] :
             /\ t.f <= t.w + FHI
             /\ (NEEDNINT => (t.f >= 0 /\ N!NInt(t) >= 0)) }
Init == tx \in Fmts /\ ty \in Fmts /\ ph = 0
Next == ph = 0 /\ ph' = 1 /\ UNCHANGED <<tx, ty>>
Codes(t) == N!Lo(t)..N!Hi(t)
Ops3 == {"add", "sub", "mul"}
Policies == {"optimal", "same", "largest", "smallest"}

(********************************** C07 ************************************)
ExactNoFlag == \A op \in Ops3 : LET tz == N!Grow(op, tx, ty) IN
   \A cx \in Codes(tx), cy \in Codes(ty) :
      LET ex == N!ExactOp(op, cx, tx, cy, ty)
          a == A!RawAlgo(op, cx, tx, cy, ty, tz, "trunc", "saturate")
      IN IF ~tz.s /\ N!DIsNeg(ex)
         THEN a.code = 0 /\ a.under /\ ~a.over                      \* the single stated exception
         ELSE /\ N!DEq(N!ValueOf(a.code, tz), ex)                    \* exact
              /\ ~a.over /\ ~a.under /\ ~a.inexact                   \* no flag
\* the growth rules are TIGHT for equal operand formats: the extreme corners really need the grown word
\* (guards against a vacuous rule such as "always 64 bits")
GrowthNeeded == \A op \in {"add", "mul"} : LET tz == N!Grow(op, tx, ty) IN
   (tx = ty /\ tx.w >= 2) =>
      \E cx \in {N!Lo(tx), N!Hi(tx)}, cy \in {N!Lo(ty), N!Hi(ty)} :
         LET smaller == [tz EXCEPT !.w = tz.w - 1]
         IN N!Quantize(N!ExactOp(op, cx, tx, cy, ty), smaller, "trunc", "saturate").over
            \/ N!Quantize(N!ExactOp(op, cx, tx, cy, ty), smaller, "trunc", "saturate").under
\* + - * are monotone in each argument, so the four corners bound every other pair (used for wide words)
Monotone == \A cx \in Codes(tx), cy \in Codes(ty) :
   /\ (cx < N!Hi(tx) => N!DLe(N!ExactOp("add", cx, tx, cy, ty), N!ExactOp("add", cx + 1, tx, cy, ty)))
   /\ (cx < N!Hi(tx) => N!DLe(N!ExactOp("sub", cx, tx, cy, ty), N!ExactOp("sub", cx + 1, tx, cy, ty)))
   /\ (cy < N!Hi(ty) => N!DLe(N!ExactOp("sub", cx, tx, cy + 1, ty), N!ExactOp("sub", cx, tx, cy, ty)))

(********************************** C08 ************************************)
SingleRounding == \A op \in Ops3, pol \in Policies : LET tz == N!ImposedFmt(pol, op, tx, ty) IN
   tz.w >= 1 =>
   \A r \in N!Roundings, o \in N!Overflows : \A cx \in Codes(tx), cy \in Codes(ty) :
      LET q == N!ArithInto(op, cx, tx, cy, ty, tz, r, o)
          a == A!RawAlgo(op, cx, tx, cy, ty, tz, r, o)
          b == A!ReprAlgo(op, cx, tx, cy, ty, tz, r, o)
      IN /\ a.code = q.code /\ a.over = q.over /\ a.under = q.under /\ a.inexact = q.inexact
         /\ b.code = q.code /\ b.over = q.over /\ b.under = q.under /\ b.inexact = q.inexact
\* unary minus, plus, abs: exact whenever representable in the operand's format
UnaryExact == \A c \in Codes(tx) :
   /\ (-c \in Codes(tx) => A!StoreAlgo(-c, 0, tx, "trunc", "saturate", TRUE).code = -c)
   /\ A!StoreAlgo(c, 0, tx, "trunc", "saturate", TRUE).code = c

(********************************** C09 ************************************)
Rnd3 == {"trunc", "around", "floor"}
DivOK == \A r \in Rnd3 : \A cx \in Codes(tx), cy \in Codes(ty) \ {0} :
   LET tz == N!GrowTrueDiv(tx, ty)
       a == A!TrueDivRawAlgo(cx, tx, cy, ty, tz, r, "saturate")
   IN tz.w >= 1 => /\ N!TrueDivOK(cx, tx, cy, ty, a.code, tz)
                   /\ ~a.over /\ ~a.under                           \* optimal sizing never overflows
FloorModOK == \A cx \in Codes(tx), cy \in Codes(ty) \ {0} :
   LET tq == N!GrowFloorDiv(tx, ty)  tm == N!GrowMod(tx, ty)
       q == A!FloorDivRawAlgo(cx, tx, cy, ty, tq, "trunc", "saturate")
       m == A!ModRawAlgo(cx, tx, cy, ty, tm, "trunc", "saturate")
   IN (tq.w >= 1 /\ tm.w >= 1) =>
      /\ ~q.over /\ ~q.under /\ ~q.inexact /\ N!FloorQuotIs(q.code, cx, tx, cy, ty)
      /\ ~m.over /\ ~m.under /\ ~m.inexact /\ N!ModIs(m.code, tm, q.code, cx, tx, cy, ty)
      \* the remainder takes the divisor's sign and is smaller in magnitude
      /\ (m.code = 0 \/ (m.code > 0) = (cy > 0))

I_ExactNoFlag == ph = 0 \/ ExactNoFlag
I_GrowthNeeded == ph = 0 \/ GrowthNeeded
I_Monotone == ph = 0 \/ Monotone
I_SingleRounding == ph = 0 \/ SingleRounding
I_UnaryExact == ph = 0 \/ UnaryExact
I_DivOK == ph = 0 \/ DivOK
I_FloorModOK == ph = 0 \/ FloorModOK
Row == [k |-> "arith", x |-> tx, y |-> ty]
Emit == ph = 0 \/ PrintT(ToJson(Row))
\* C09's world: format pairs whose documented optimal quotient / remainder formats exist (word >= 1); for the others
\* (only with negative or oversized n_frac) the library has no format to return and rejects the call
DivFmtsExist == N!GrowTrueDiv(tx, ty).w >= 1 /\ N!GrowFloorDiv(tx, ty).w >= 1 /\ N!GrowMod(tx, ty).w >= 1
EmitDiv == ph = 0 \/ ~DivFmtsExist \/ PrintT(ToJson(Row))
=============================================================================
