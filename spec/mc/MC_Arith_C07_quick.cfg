CONSTANTS W = 3
FLO = 1
FHI = 1
NEEDNINT = FALSE
INIT Init
NEXT Next
CHECK_DEADLOCK FALSE
INVARIANT I_ExactNoFlag
INVARIANT I_GrowthNeeded
INVARIANT I_Monotone
INVARIANT Emit
