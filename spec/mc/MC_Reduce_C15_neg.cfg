CONSTANTS W = 3
NMAX = 5
FLO = 1
FHI = 2
INIT Init
NEXT Next
CHECK_DEADLOCK FALSE
INVARIANT I_SumFits
INVARIANT I_ProdFits
INVARIANT I_DotFits
INVARIANT I_SumTight
INVARIANT I_CumProdOldRule
INVARIANT I_FoldsAgree
