CONSTANTS W = 4
MODE = "C16"
INIT Init
NEXT Next
CHECK_DEADLOCK FALSE
INVARIANT I_TotalOrder
INVARIANT I_Conversions
INVARIANT Emit
