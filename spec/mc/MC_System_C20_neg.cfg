CONSTANTS a = a
b = b
c = c
Obj = {a, b, c}
NULL = NULL
ObjSeq <- ObjSeqDef
FmtSel = {1, 3}
RndSel = {1, 2}
OvfSel = {1}
GridSel = {2, 3}
Acts <- ActsC20Neg
Depth = 3
EXT = 4
INIT Init
NEXT Next
CHECK_DEADLOCK FALSE
VIEW View
CONSTRAINT Bound
INVARIANT WellFormed
INVARIANT NoSharedConfig
INVARIANT ViewsOnly
PROPERTY NonInterference
PROPERTY ViewWriteThrough
PROPERTY BadConfigRejected
PROPERTY SourceUnchanged
