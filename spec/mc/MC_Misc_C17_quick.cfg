CONSTANTS W = 3
MODE = "C17"
INIT Init
NEXT Next
CHECK_DEADLOCK FALSE
INVARIANT I_Affine
INVARIANT I_Limits
INVARIANT Emit
