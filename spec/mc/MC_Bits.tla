------------------------------- MODULE MC_Bits -------------------------------
(***************************************************************************)
(* Exhaustive small world for bitwise operators (C13) and shifts (C14).    *)
(* One TLC state per format (C14: plus a second code for 2-element arrays) *)
(* or per pair of same-word formats (C13); inside each state every code /  *)
(* code pair / shift count.                                                *)
(***************************************************************************)
EXTENDS Integers, Sequences, TLC, Json
CONSTANTS W, MODE          \* "C13" or "C14"
N == INSTANCE FxpN
A == INSTANCE FxpAlgo WITH MW <- 30
VARIABLES tx, ty, ph
Fmts13 == { t \in [s : BOOLEAN, w : 1..W, f : 0..W] : t.f <= t.w }
Fmts14 == { t \in [s : BOOLEAN, w : 1..W, f : 0..W] : t.f \in {0, t.w \div 2} }
Init == /\ ph = 0
        /\ IF MODE = "C13" THEN tx \in Fmts13 /\ ty \in Fmts13 /\ tx.w = ty.w
                           ELSE tx \in Fmts14 /\ ty = tx
Next == ph = 0 /\ ph' = 1 /\ UNCHANGED <<tx, ty>>
Codes(t) == N!Lo(t)..N!Hi(t)
(********************************** C13 ************************************)
Pat(c) == N!Pattern(c, tx.w)
Ops == {"and", "or", "xor"}
BitwiseIsPattern == \A cx \in Codes(tx) :
   /\ N!Pattern(A!InvertAlgo(cx, tx), tx.w) = N!PatNot(Pat(cx))
   /\ \A cy \in Codes(ty), op \in Ops :
        /\ N!Pattern(A!BitOpAlgo(op, cx, tx, cy), tx.w) = N!BitwiseOp(op, Pat(cx), N!Pattern(cy, tx.w))
        /\ A!BitOpAlgo(op, cx, tx, cy) \in Codes(tx)                            \* result in x's format
        /\ N!FromImage(N!PatToNat(Pat(cx)), tx) = cx                             \* pattern <-> code bijection
\* integer masks (either side), incl. negative and oversized ones: only the n_word low bits matter
MaskOK == \A cx \in Codes(tx), m \in (-(2^tx.w) - 1)..(2^(tx.w + 1) + 1), op \in Ops :
   N!Pattern(A!BitOpAlgo(op, cx, tx, m), tx.w) = N!BitwiseOp(op, Pat(cx), N!Pattern(m, tx.w))
Laws == \A cx \in Codes(tx) :
   LET nx == A!InvertAlgo(cx, tx) IN
   /\ A!InvertAlgo(nx, tx) = cx                                                 \* ~~x = x
   /\ (tx.s => nx = -cx - 1)                                                    \* ~x = -x - LSB  (codes)
   /\ \A cy \in Codes(tx) :                                                     \* De Morgan
        /\ A!InvertAlgo(A!BitOpAlgo("and", cx, tx, cy), tx) = A!BitOpAlgo("or", nx, tx, A!InvertAlgo(cy, tx))
        /\ A!InvertAlgo(A!BitOpAlgo("or", cx, tx, cy), tx) = A!BitOpAlgo("and", nx, tx, A!InvertAlgo(cy, tx))
(********************************** C14 ************************************)
Counts == 0..(tx.w + 3)
Arrays == { <<c>> : c \in Codes(tx) } \cup { <<c, d>> : c \in Codes(tx), d \in {N!Lo(tx), N!Hi(tx), 0, 1, 2, 4} \cap Codes(tx) }
ExpandLossless == \A cs \in Arrays, n \in Counts :
   LET r == A!RShiftExpand(cs, tx, n)  l == A!LShiftExpand(cs, tx, n) IN
   /\ \A i \in DOMAIN cs :
        /\ N!DEq(N!ValueOf(r.codes[i], r.fmt), N!Scale(N!ValueOf(cs[i], tx), -n))      \* x >> n = x / 2^n exactly
        /\ N!DEq(N!ValueOf(l.codes[i], l.fmt), N!Scale(N!ValueOf(cs[i], tx), n))       \* x << n = x * 2^n exactly
   \* shift by zero is the identity on VALUES (covered above); x >> 0 also keeps the format.  x << 0 may return a
   \* wider word when x holds the most negative code (the word is sized from |code|): TLC refuted format identity there.
   /\ (n = 0 => r.fmt = tx /\ r.codes = cs /\ l.fmt.f = tx.f)
KeepArithmetic == \A cs \in Arrays, n \in Counts :
   LET r == A!RShiftKeep(cs, tx, n)  l == A!LShiftKeep(cs, tx, n) IN
   \A i \in DOMAIN cs :
      /\ r.codes[i] = N!IShr(cs[i], n) /\ r.codes[i] \in Codes(tx)                       \* floor(code / 2^n), sign filling
      /\ (cs[i] < 0 => r.codes[i] < 0) /\ (n >= tx.w /\ cs[i] < 0 => r.codes[i] = -1)
      /\ LET k == cs[i] * 2^n IN
         IF k \in Codes(tx) THEN l.codes[i] = k
         ELSE l.codes[i] \in {N!Saturate(k, tx), N!Wrap(k, tx)}                          \* clamped or wrapped
I_BitwiseIsPattern == ph = 0 \/ BitwiseIsPattern
I_MaskOK == ph = 0 \/ MaskOK
I_Laws == ph = 0 \/ Laws
I_ExpandLossless == ph = 0 \/ ExpandLossless
I_KeepArithmetic == ph = 0 \/ KeepArithmetic
Emit == ph = 0 \/ PrintT(ToJson([k |-> "bits", x |-> tx, y |-> ty]))
=============================================================================
