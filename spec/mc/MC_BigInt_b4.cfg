CONSTANTS B = 4
LB = 2
R = 70
KMAX = 9
INIT Init
CHECK_DEADLOCK FALSE
NEXT Next
INVARIANT RoundTrip
INVARIANT AddOK
INVARIANT SubOK
INVARIANT NegOK
INVARIANT MulOK
INVARIANT CmpOK
INVARIANT ShiftOK
INVARIANT LenOK
INVARIANT WireOK
