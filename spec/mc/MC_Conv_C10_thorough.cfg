CONSTANTS W = 4
FLO = 2
FHI = 2
INIT Init
NEXT Next
CHECK_DEADLOCK FALSE
INVARIANT I_ConvIsQuantize
INVARIANT I_Preserved
INVARIANT I_RoundTrip
INVARIANT Emit
