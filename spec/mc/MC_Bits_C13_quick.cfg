CONSTANTS W = 4
MODE = "C13"
INIT Init
NEXT Next
CHECK_DEADLOCK FALSE
INVARIANT I_BitwiseIsPattern
INVARIANT I_MaskOK
INVARIANT I_Laws
INVARIANT Emit
