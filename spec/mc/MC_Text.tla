------------------------------- MODULE MC_Text -------------------------------
(***************************************************************************)
(* Exhaustive small world for strings (C11, C12).                          *)
(*  C11: for every code of every format (n_word <= W, 0 <= n_frac <=       *)
(*       n_word) the rendered bin/hex strings have the right length and    *)
(*       digits and the transcribed parsers restore the code (value mode   *)
(*       and raw mode, with/without point and prefix).                     *)
(*  C12: for every (signed, n_word <= WD, -8 <= n_frac <= n_word+8,        *)
(*       complex) the transcribed grammars parse every spelling of the     *)
(*       dtype string (fxp / Q / UQ / S / U, any case) back to the format. *)
(***************************************************************************)
EXTENDS Integers, Sequences, TLC, Json
CONSTANTS W, WD, MODE           \* MODE = "C11" or "C12"
N == INSTANCE FxpN
P == INSTANCE FxpParse
VARIABLES t, ph
Fmts11 == { x \in [s : BOOLEAN, w : 2..W, f : 0..W] : x.f <= x.w }
Fmts12 == { x \in [s : BOOLEAN, w : 1..WD, f : (-8)..(WD + 8)] : x.f <= x.w + 8 }
Init == t \in (IF MODE = "C11" THEN Fmts11 ELSE Fmts12) /\ ph = 0
Next == ph = 0 /\ ph' = 1 /\ UNCHANGED t
Codes == N!Lo(t)..N!Hi(t)
(********************************** C11 ************************************)
ImageShape == \A c \in Codes :
   /\ Len(N!BinImage(c, t.w)) = t.w
   /\ \A i \in 1..t.w : N!BinImage(c, t.w)[i] \in {48, 49}
   /\ Len(N!HexImage(c, t.w)) = (t.w + 3) \div 4
   \* the image read as an unsigned numeral is the code modulo 2^n_word
   /\ P!BitsToNat(N!BinImage(c, t.w)) = c % 2^t.w
   /\ P!HexToNat(N!HexImage(c, t.w)) = c % 2^t.w
   /\ Len(N!BinString(c, t, TRUE, <<>>)) = t.w + 1
RoundTrip == \A c \in Codes :
   /\ P!ParseBin(N!BinString(c, t, FALSE, N!S_0b), t, FALSE) = c
   /\ P!ParseBin(N!BinString(c, t, TRUE, N!S_0b), t, FALSE) = c
   /\ P!ParseBin(N!BinString(c, t, FALSE, N!S_0b), t, TRUE) = c
   /\ P!ParseBin(N!BinString(c, t, FALSE, <<98>>), t, TRUE) = c
   /\ P!ParseHex(N!HexString(c, t, N!S_0x), t, FALSE) = c
   /\ P!ParseHex(N!HexString(c, t, N!S_0x), t, TRUE) = c
BaseReprOK == \A c \in Codes : \A b \in {2, 3, 8, 10, 16} :
   \* a numeral built by repeated division is THE base-b sign-magnitude numeral
   LET RECURSIVE digs(_)
       digs(n) == IF n < b THEN <<N!HexDigitCh(n)>> ELSE digs(n \div b) \o <<N!HexDigitCh(n % b)>>
       s == (IF c < 0 THEN <<45>> ELSE <<>>) \o digs(IF c < 0 THEN -c ELSE c)
   IN N!IsBaseRepr(s, c, b) /\ ~N!IsBaseRepr(<<48>> \o s, c, b)
(********************************** C12 ************************************)
Want(cplx) == [s |-> t.s, w |-> t.w, f |-> t.f, cplx |-> cplx]
DtypeRoundTrip ==
   /\ \A cplx \in BOOLEAN :
        /\ P!ParseFmt(N!FxpString(t, cplx)) = Want(cplx)
        /\ P!ParseFmt(N!Upper(N!FxpString(t, cplx))) = Want(cplx)
   /\ TRUE =>                                   \* Q notation for every format: m = n_word - n_frac may be negative (Q-3.11)
        /\ P!ParseFmt(N!QString(t)) = Want(FALSE)
        /\ P!ParseFmt(N!Lower(N!QString(t))) = Want(FALSE)
        /\ P!ParseFmt(N!SUString(t)) = Want(FALSE)
        /\ P!ParseFmt(N!Lower(N!SUString(t))) = Want(FALSE)
I_ImageShape == ph = 0 \/ ImageShape
I_RoundTrip == ph = 0 \/ RoundTrip
I_BaseReprOK == ph = 0 \/ BaseReprOK
I_DtypeRoundTrip == ph = 0 \/ DtypeRoundTrip
Emit11 == ph = 0 \/ PrintT(ToJson([k |-> "text", s |-> t.s, w |-> t.w, f |-> t.f]))
Emit12 == ph = 0 \/ PrintT(ToJson([k |-> "dtype", s |-> t.s, w |-> t.w, f |-> t.f,
             fxp |-> N!FxpString(t, FALSE), fxpc |-> N!FxpString(t, TRUE), fxpU |-> N!Upper(N!FxpString(t, TRUE)),
             q |-> N!QString(t),
             ql |-> N!Lower(N!QString(t)),
             su |-> N!SUString(t),
             sul |-> N!Lower(N!SUString(t))]))
=============================================================================
