CONSTANTS a = a
b = b
c = c
Obj = {a, b}
NULL = NULL
ObjSeq <- ObjSeqDef
FmtSel = {1, 2}
RndSel = {1, 2}
OvfSel = {1, 2}
GridSel = {1, 2, 4, 6}
Acts <- ActsC04
Depth = 8
EXT = 4
INIT Init
NEXT Next
CHECK_DEADLOCK FALSE
VIEW View
INVARIANT EmitFull
