------------------------------ MODULE MC_Store ------------------------------
(***************************************************************************)
(* Exhaustive small world for storing a value (C01, C03, C05, SatSide of   *)
(* C02, flag clause of C04).  One TLC state per configuration              *)
(*    (signed, n_word <= W, -8 <= n_frac <= n_word+8, rounding, overflow)  *)
(* and, inside each state, EVERY input on the quarter-LSB grid over three  *)
(* times the representable range (so every code, every tie, both range     *)
(* ends and the zero crossing).                                            *)
(*                                                                         *)
(*  - lemma invariants: the implementation-shaped algorithm (FxpAlgo)      *)
(*    satisfies the property-level statement (FxpMath);                    *)
(*  - relation invariants (C05/C03) are stated WITHOUT the quantizer, by   *)
(*    quantifying over all representable codes, and guard the oracle;      *)
(*  - Emit prints one JSON case row per configuration: the harness         *)
(*    executes every row on the real implementation and the observations   *)
(*    are judged by Judge.tla.                                             *)
(***************************************************************************)
EXTENDS Integers, Sequences, TLC, Json
CONSTANTS W, FLO, FHI          \* n_word <= W;  n_frac in (FLO)..(n_word + FHI)
N == INSTANCE FxpN
A == INSTANCE FxpAlgo WITH MW <- 24

VARIABLES s, w, f, r, o, ph
vars == <<s, w, f, r, o, ph>>
\* Phase 0 states are the configurations with the invariants switched off; each steps to its
\* phase-1 copy where the invariants are evaluated.  TLC evaluates invariants of a successor in the
\* worker that expands the parent, and computes initial states on one thread, so this spreads
\* the work over all workers.
Init == /\ s \in BOOLEAN /\ w \in 1..W /\ f \in (-FLO)..(w + FHI)
        /\ r \in N!Roundings /\ o \in N!Overflows /\ ph = 0
Next == ph = 0 /\ ph' = 1 /\ UNCHANGED <<s, w, f, r, o>>
t == [s |-> s, w |-> w, f |-> f]
LoI == N!Lo(t)
HiI == N!Hi(t)
Span == 2^w
\* input v = k4 * 2^(-f-2): the quarter-LSB grid over three times the range
GLo == 4 * (LoI - Span)
GHi == 4 * (HiI + Span)
Grid == GLo..GHi
V(k4) == [m |-> k4, e |-> -f - 2]
Q(k4) == N!Quantize(V(k4), t, r, o)

(************************* C01: algorithm = statement **********************)
AlgoIsMath == \A k4 \in Grid :
   LET q == Q(k4)  a == A!StoreAlgo(k4, -f - 2, t, r, o, FALSE)
   IN a.code = q.code /\ a.over = q.over /\ a.under = q.under /\ a.inexact = q.inexact
InRangeAlways == \A k4 \in Grid : Q(k4).code >= LoI /\ Q(k4).code <= HiI
\* every code is produced by its own value (surjective on codes, exact, flag-free): C05 idempotence
Idempotent == \A c \in LoI..HiI :
   LET q == Q(4 * c) IN q.code = c /\ ~q.over /\ ~q.under /\ ~q.inexact
\* C02: under saturate an out-of-range input ends at the bound on its own side
SatSide == o = "saturate" =>
   \A k4 \in Grid : /\ (k4 > 4 * HiI + 3 => Q(k4).code = HiI)
                    /\ (k4 < 4 * LoI - 3 => Q(k4).code = LoI)
\* C04: flags are exactly "rounded value beyond the bound" / "stored differs from input"
FlagIff == \A k4 \in Grid :
   LET q == Q(k4) IN /\ q.over = (q.k > HiI) /\ q.under = (q.k < LoI)
                     /\ q.inexact = (4 * q.code # k4)

(******************* C05: rounding contracts, quantizer free ****************)
\* stated by quantifying over ALL representable codes c (value c*LSB) against x = k4/4
NoOvf(k4) == LET q == Q(k4) IN ~q.over /\ ~q.under
FloorOK(k4, q) == 4*q <= k4 /\ \A c \in LoI..HiI : 4*c <= k4 => c <= q
CeilOK(k4, q)  == 4*q >= k4 /\ \A c \in LoI..HiI : 4*c >= k4 => c >= q
Dist(k4, c) == IF 4*c >= k4 THEN 4*c - k4 ELSE k4 - 4*c
AbsI(n) == IF n < 0 THEN -n ELSE n
TZCand(k4, c) == AbsI(4*c) <= AbsI(k4) /\ (c = 0 \/ (c > 0) = (k4 > 0))     \* not farther from zero
TowardZeroOK(k4, q) == TZCand(k4, q) /\ \A c \in LoI..HiI : TZCand(k4, c) => Dist(k4, q) <= Dist(k4, c)
NearestEvenOK(k4, q) == /\ Dist(k4, q) <= 2 /\ (Dist(k4, q) = 2 => q % 2 = 0)
Contracts == \A k4 \in Grid : NoOvf(k4) =>
   LET q == Q(k4).code IN
   /\ Dist(k4, q) < 4                                                     \* |q - v| < LSB
   /\ CASE r = "floor" -> FloorOK(k4, q) [] r = "ceil" -> CeilOK(k4, q)
        [] r \in {"trunc", "fix"} -> TowardZeroOK(k4, q) [] r = "around" -> NearestEvenOK(k4, q)
\* the closed forms used by the judge on wide formats are equivalent to the quantified forms
ClosedFormsAgree == \A k4 \in Grid : \A c \in (LoI - 1)..(HiI + 1) :
   LET x == [m |-> k4, e |-> -2] IN
   /\ N!FloorRel(x, c) = (4*c <= k4 /\ k4 < 4*(c+1))
   /\ N!CeilRel(x, c) = (4*(c-1) < k4 /\ k4 <= 4*c)
   /\ N!AroundRel(x, c) = NearestEvenOK(k4, c)
   /\ N!WithinOneLSB(x, c) = (Dist(k4, c) < 4)
Monotone == o = "saturate" => \A k4 \in GLo..(GHi - 1) : Q(k4).code <= Q(k4 + 1).code

(********************* C03: wrap is modular arithmetic **********************)
WrapUnique == \A k \in (LoI - 2*Span)..(HiI + 2*Span) :
   LET c == N!Wrap(k, t) IN
   /\ N!WrapOK(k, c, t)
   /\ \A d \in LoI..HiI : (d - k) % Span = 0 => d = c                  \* the unique one
   /\ A!WrapAlgo(k, t) = c                                              \* mask-and-sign-extend
\* shifting the input by any multiple of 2^(n_word - n_frac) does not change what is stored.
\* (TLC refuted the unrestricted statement: toward-zero rounding does not commute with a shift
\*  that moves a non-integral scaled input across zero - trunc(0.5) = 0 but trunc(0.5 - 2) = -1 -
\*  so for trunc/fix the consequence is claimed for grid inputs and for shifts that keep the sign.)
ShiftCommutes(k4, k4s) == r \notin {"trunc", "fix"} \/ k4 % 4 = 0 \/ (k4 >= 0) = (k4s >= 0)
ShiftInvariant == o = "wrap" => \A k4 \in (4*LoI)..(4*HiI + 3) : \A j \in -3..3 :
   ShiftCommutes(k4, k4 + 4 * j * Span) => Q(k4 + 4 * j * Span).code = Q(k4).code


(* invariants as registered in the cfg files: evaluated in phase 1 only *)
I_AlgoIsMath == ph = 0 \/ AlgoIsMath
I_InRangeAlways == ph = 0 \/ InRangeAlways
I_Idempotent == ph = 0 \/ Idempotent
I_SatSide == ph = 0 \/ SatSide
I_FlagIff == ph = 0 \/ FlagIff
I_Contracts == ph = 0 \/ Contracts
I_ClosedFormsAgree == ph = 0 \/ ClosedFormsAgree
I_Monotone == ph = 0 \/ Monotone
I_WrapUnique == ph = 0 \/ WrapUnique
I_ShiftInvariant == ph = 0 \/ ShiftInvariant

(***************************** case emitter ********************************)
Row == [k |-> "store", s |-> s, w |-> w, f |-> f, r |-> r, o |-> o, glo |-> GLo, ghi |-> GHi,
        lo |-> LoI, hi |-> HiI]
Emit == ph = 0 \/ PrintT(ToJson(Row))
=============================================================================
