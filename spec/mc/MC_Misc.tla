------------------------------- MODULE MC_Misc -------------------------------
(***************************************************************************)
(* Small worlds for comparisons / numeric conversions (C16) and for scale  *)
(* and bias (C17).                                                         *)
(*  C16: one state per pair of formats; all code pairs: the six relations  *)
(*       on exact dyadic values are a consistent total order; conversions  *)
(*       (floor, uraw image) agree with their bit-level definitions.       *)
(*  C17: one state per (format, rounding, overflow, scale k/2^j, bias):    *)
(*       storing v = u*s + b stores Quantize(u); reading gives s*code*LSB  *)
(*       + b; a negative scale flips the rounding direction seen from v.   *)
(***************************************************************************)
EXTENDS Integers, Sequences, TLC, Json
CONSTANTS W, MODE
N == INSTANCE FxpN
VARIABLES tx, ty, cfg, ph
Fmts16 == { t \in [s : BOOLEAN, w : 1..W, f : (-1)..(W + 1)] : t.f <= t.w + 1 }
Fmts17 == { t \in [s : BOOLEAN, w : 2..W, f : 0..W] : t.f <= t.w }
Scales == { [k |-> k, j |-> j] : k \in {1, 3, 5, 7, -1, -3, -5, -7}, j \in 0..3 }
Biases == { [m |-> b, e |-> e] : b \in {0, 1, -3, 5}, e \in {0, -2} }
NoCfg == [r |-> "trunc", o |-> "saturate", sc |-> [k |-> 1, j |-> 0], b |-> [m |-> 0, e |-> 0]]
Init == /\ ph = 0
        /\ IF MODE = "C16" THEN tx \in Fmts16 /\ ty \in Fmts16 /\ cfg = NoCfg
           ELSE /\ tx \in Fmts17 /\ ty = tx
                /\ cfg \in [r : N!Roundings, o : N!Overflows, sc : Scales, b : Biases]
Next == ph = 0 /\ ph' = 1 /\ UNCHANGED <<tx, ty, cfg>>
Codes(t) == N!Lo(t)..N!Hi(t)
(********************************** C16 ************************************)
Ops == {"lt", "le", "eq", "ne", "gt", "ge"}
TotalOrder == \A cx \in Codes(tx), cy \in Codes(ty) :
   LET a == N!ValueOf(cx, tx)  b == N!ValueOf(cy, ty)
       lt == N!Rel("lt", a, b)  eq == N!Rel("eq", a, b)  gt == N!Rel("gt", a, b) IN
   /\ (IF lt THEN 1 ELSE 0) + (IF eq THEN 1 ELSE 0) + (IF gt THEN 1 ELSE 0) = 1          \* trichotomy
   /\ N!Rel("le", a, b) = (lt \/ eq) /\ N!Rel("ge", a, b) = (gt \/ eq) /\ N!Rel("ne", a, b) = ~eq
   /\ N!Rel("lt", a, b) = N!Rel("gt", b, a)
   \* same format: the order of values is the order of codes
   /\ (tx = ty => lt = (cx < cy))
   \* cross-multiplied integers agree:  cx*2^-fx < cy*2^-fy  <=>  cx*2^(F-fx) < cy*2^(F-fy),  F = max(fx, fy)
   /\ LET F == IF tx.f >= ty.f THEN tx.f ELSE ty.f IN lt = (cx * 2^(F - tx.f) < cy * 2^(F - ty.f))
Conversions == \A c \in Codes(tx) :
   /\ N!URaw(c, tx) = N!PatToNat(N!Pattern(c, tx.w)) /\ N!URaw(c, tx) \in 0..(2^tx.w - 1)
   /\ (c >= 0 => N!URaw(c, tx) = c) /\ (c < 0 => N!URaw(c, tx) = 2^tx.w + c)
   \* floor of the value: the largest integer n with n <= code*2^-f
   /\ LET fl == N!FloorD(N!ValueOf(c, tx)) IN
        N!DLe(N!DOfInt(fl), N!ValueOf(c, tx)) /\ N!DLt(N!ValueOf(c, tx), N!DOfInt(fl + 1))
(********************************** C17 ************************************)
Sd == [m |-> cfg.sc.k, e |-> -cfg.sc.j]                     \* the scale as a dyadic
Grid == (4 * (N!Lo(tx) - 2))..(4 * (N!Hi(tx) + 2))           \* u = k4 / 4 LSB
U(k4) == [m |-> k4, e |-> -tx.f - 2]
V(k4) == N!DAdd(N!DMul(U(k4), Sd), cfg.b)                   \* the user-level value v = u*s + b
Read(c) == N!DAdd(N!DMul(N!ValueOf(c, tx), Sd), cfg.b)      \* s*code*2^-f + b
Affine == \A k4 \in Grid :
   LET q == N!Quantize(U(k4), tx, cfg.r, cfg.o) IN
   \* reading back an exactly stored value returns the input
   /\ (~q.inexact => N!DEq(Read(q.code), V(k4)))
   \* seen from v, a negative scale flips floor and ceil
   /\ (~q.over /\ ~q.under /\ cfg.r = "floor") =>
        (IF cfg.sc.k > 0 THEN N!DLe(Read(q.code), V(k4)) ELSE N!DLe(V(k4), Read(q.code)))
   /\ (~q.over /\ ~q.under /\ cfg.r = "ceil") =>
        (IF cfg.sc.k > 0 THEN N!DLe(V(k4), Read(q.code)) ELSE N!DLe(Read(q.code), V(k4)))
Limits == \* upper/lower through the affine map bracket every readable value (in the order the sign of s dictates)
   \A c \in Codes(tx) :
      IF cfg.sc.k > 0 THEN N!DLe(Read(N!Lo(tx)), Read(c)) /\ N!DLe(Read(c), Read(N!Hi(tx)))
      ELSE N!DLe(Read(N!Hi(tx)), Read(c)) /\ N!DLe(Read(c), Read(N!Lo(tx)))
I_TotalOrder == ph = 0 \/ TotalOrder
I_Conversions == ph = 0 \/ Conversions
I_Affine == ph = 0 \/ Affine
I_Limits == ph = 0 \/ Limits
Emit == ph = 0 \/ PrintT(ToJson([k |-> "misc", x |-> tx, y |-> ty, r |-> cfg.r, o |-> cfg.o, sk |-> cfg.sc.k, sj |-> cfg.sc.j,
                                   bm |-> cfg.b.m, be |-> cfg.b.e, glo |-> 4 * (N!Lo(tx) - 2), ghi |-> 4 * (N!Hi(tx) + 2)]))
=============================================================================
