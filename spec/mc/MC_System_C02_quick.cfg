CONSTANTS a = a
b = b
c = c
Obj = {a, b, c}
NULL = NULL
ObjSeq <- ObjSeqDef
FmtSel = {1, 5, 6}
RndSel = {1}
OvfSel = {1, 2}
GridSel = {2, 4}
Acts <- ActsC02
Depth = 3
EXT = 4
INIT Init
NEXT Next
CHECK_DEADLOCK FALSE
VIEW View
CONSTRAINT Bound
INVARIANT WellFormed
INVARIANT ViewsOnly
PROPERTY SourceUnchanged
INVARIANT EmitHist
