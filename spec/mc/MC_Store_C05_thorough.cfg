CONSTANTS W = 6
FLO = 8
FHI = 8
INIT Init
NEXT Next
CHECK_DEADLOCK FALSE
INVARIANT I_Contracts
INVARIANT I_ClosedFormsAgree
INVARIANT I_Idempotent
INVARIANT I_Monotone
INVARIANT Emit
