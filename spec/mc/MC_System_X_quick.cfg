CONSTANTS a = a
b = b
c = c
Obj = {a, b, c}
NULL = NULL
ObjSeq <- ObjSeqDef
FmtSel = {1, 2}
RndSel = {1}
OvfSel = {1, 2}
GridSel = {3, 5}
Acts <- ActsExt
Depth = 3
EXT = 4
INIT Init
NEXT Next
CHECK_DEADLOCK FALSE
VIEW View
CONSTRAINT Bound
INVARIANT WellFormed
INVARIANT ViewsOnly
INVARIANT NoSharedConfig
PROPERTY SourceUnchanged
PROPERTY NonInterference
PROPERTY ViewWriteThrough
PROPERTY Sticky
PROPERTY FlagIff
PROPERTY InaccPropagates
PROPERTY ShiftExact
PROPERTY ReduceExact
PROPERTY BitKeepsFormat
PROPERTY IOpRebinds
INVARIANT EmitHist
