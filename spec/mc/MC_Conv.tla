------------------------------- MODULE MC_Conv -------------------------------
(***************************************************************************)
(* Exhaustive small world for format conversion (C10).  One TLC state per  *)
(* (source format, destination format) pair, n_word <= W, -FLO <= n_frac   *)
(* <= n_word + FHI; inside each state every source code x 10 destination   *)
(* modes.  Lemma: the implementation's route - shift the raw code by the   *)
(* fraction-length difference and store it RAW with rounding - equals the  *)
(* exact source value quantized into the destination (C01), flags          *)
(* included; the value is preserved exactly whenever representable.        *)
(***************************************************************************)
EXTENDS Integers, Sequences, TLC, Json
CONSTANTS W, FLO, FHI
N == INSTANCE FxpN
A == INSTANCE FxpAlgo WITH MW <- 30
VARIABLES ts, td, ph
Fmts == { t \in [s : BOOLEAN, w : 1..W, f : (-FLO)..(W + FHI)] : t.f <= t.w + FHI }
Init == ts \in Fmts /\ td \in Fmts /\ ph = 0
Next == ph = 0 /\ ph' = 1 /\ UNCHANGED <<ts, td>>
Codes(t) == N!Lo(t)..N!Hi(t)
ConvIsQuantize == \A c \in Codes(ts) : \A r \in N!Roundings, o \in N!Overflows :
   LET q == N!Convert(c, ts, td, r, o)  a == A!ConvertAlgo(c, ts, td, r, o)
   IN a.code = q.code /\ a.over = q.over /\ a.under = q.under /\ a.inexact = q.inexact
\* representable in the destination  =>  preserved exactly, no flag, in every mode
Preserved == \A c \in Codes(ts) :
   LET x == N!Scale(N!ValueOf(c, ts), td.f) IN
   (N!IsIntD(x) /\ N!InRange(N!FloorD(x), td)) =>
      \A r \in N!Roundings, o \in N!Overflows :
         LET a == A!ConvertAlgo(c, ts, td, r, o)
         IN N!DEq(N!ValueOf(a.code, td), N!ValueOf(c, ts)) /\ ~a.over /\ ~a.under /\ ~a.inexact
\* converting there and back through a format that represents the value is the identity
RoundTrip == \A c \in Codes(ts) :
   LET a == A!ConvertAlgo(c, ts, td, "trunc", "saturate") IN
   (~a.inexact) => A!ConvertAlgo(a.code, td, ts, "trunc", "saturate").code = c
I_ConvIsQuantize == ph = 0 \/ ConvIsQuantize
I_Preserved == ph = 0 \/ Preserved
I_RoundTrip == ph = 0 \/ RoundTrip
Emit == ph = 0 \/ PrintT(ToJson([k |-> "conv", x |-> ts, y |-> td]))
=============================================================================
