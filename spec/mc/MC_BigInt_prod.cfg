CONSTANTS B = 32768
LB = 15
R = 20
KMAX = 17
INIT Init
CHECK_DEADLOCK FALSE
NEXT Next
INVARIANT RoundTrip
INVARIANT AddOK
INVARIANT SubOK
INVARIANT NegOK
INVARIANT MulOK
INVARIANT CmpOK
INVARIANT ShiftOK
INVARIANT LenOK
INVARIANT WireOK
