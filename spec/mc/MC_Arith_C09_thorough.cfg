CONSTANTS W = 5
FLO = 0
FHI = 0
NEEDNINT = FALSE
INIT Init
NEXT Next
CHECK_DEADLOCK FALSE
INVARIANT I_DivOK
INVARIANT I_FloorModOK
INVARIANT Emit
