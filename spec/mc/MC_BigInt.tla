------------------------------ MODULE MC_BigInt ------------------------------
(* Every BigInt operator against native Int: exhaustive on (-R..R)^2 for small *)
(* bases (all carry/borrow/multi-limb paths), sampled for the production base. *)
EXTENDS Integers, Sequences, TLC
CONSTANTS B, LB, R, KMAX
Big == INSTANCE BigInt
\* values around limb boundaries of the production base (used only when B = 2^15)
Samples == IF B = 32768
           THEN {32767, 32768, 32769, -32768, -32769, 65535, 65536, 1073741823, -1073741823,
                 715827882, 32768000, -98304, 8191, 16384}
           ELSE {}
Dom == (-R..R) \cup Samples
VARIABLES a, b, ph
\* two phases so that the (a, b) pairs are successor states: TLC evaluates invariants of
\* successor states on all workers, of initial states on one
Init == a \in Dom /\ b = 0 /\ ph = 0
Next == ph = 0 /\ ph' = 1 /\ a' = a /\ b' \in Dom
A == Big!OfInt(a)
Bb == Big!OfInt(b)
Abs(x) == IF x < 0 THEN -x ELSE x
Small(x) == Abs(x) < 32768      \* products / shifts stay below 2^31
RECURSIVE NBitLen(_)
NBitLen(n) == IF n = 0 THEN 0 ELSE 1 + NBitLen(n \div 2)
RECURSIVE NLowZeros(_)
NLowZeros(n) == IF n % 2 = 1 THEN 0 ELSE 1 + NLowZeros(n \div 2)
RoundTrip == Big!ToInt(A) = a /\ Big!Norm(A.neg, A.mag) = A
AddOK == Big!Add(A, Bb) = Big!OfInt(a + b)
SubOK == Big!Sub(A, Bb) = Big!OfInt(a - b)
NegOK == Big!Neg(A) = Big!OfInt(-a)
MulOK == (Small(a) /\ Small(b)) => Big!Mul(A, Bb) = Big!OfInt(a * b)
CmpOK == /\ Big!Lt(A, Bb) = (a < b) /\ Big!Le(A, Bb) = (a <= b) /\ (A = Bb) = (a = b)
         /\ Big!IsZero(A) = (a = 0) /\ Big!IsNeg(A) = (a < 0)
ShiftOK == \A k \in 0..KMAX :
            /\ (Abs(a) < 2^(30 - k) => Big!Shl(A, k) = Big!OfInt(a * 2^k))
            /\ Big!FloorShr(A, k) = Big!OfInt(a \div 2^k)
            /\ Big!ModPow2(A, k) = Big!OfInt(a % 2^k)
            /\ (a >= 0 => Big!Bit(A, k) = (a \div 2^k) % 2)
LenOK == /\ Big!BitLen(A) = NBitLen(Abs(a))
         /\ (a # 0 => Big!LowZeros(A) = NLowZeros(Abs(a)))
         /\ Big!Pow2(KMAX) = Big!OfInt(2^KMAX)
WireOK == Big!FromWire(<<IF a < 0 THEN 1 ELSE 0>> \o A.mag) = A
          /\ Big!FromWire(<<1>> \o A.mag \o <<0, 0>>) = Big!OfInt(-Abs(a))
=============================================================================
