CONSTANTS a = a
b = b
c = c
Obj = {a, b, c}
NULL = NULL
ObjSeq <- ObjSeqDef
FmtSel = {1, 3, 5, 6}
RndSel = {1}
OvfSel = {1, 2}
GridSel = {2, 4, 6}
Acts <- ActsC02
Depth = 8
EXT = 4
INIT Init
NEXT Next
CHECK_DEADLOCK FALSE
VIEW View
INVARIANT EmitFull
