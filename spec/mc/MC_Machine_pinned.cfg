CONSTANTS MW = 8
MF = 5
FIXED = FALSE
INIT Init
NEXT Next
CHECK_DEADLOCK FALSE
INVARIANT NoSilentError
INVARIANT NoError
