------------------------------ MODULE MC_Reduce ------------------------------
(***************************************************************************)
(* Small world for reductions and linear algebra (C15): one TLC state per  *)
(* (format n_word <= W, length n <= NMAX); inside each state EVERY         *)
(* assignment of the extremes {Lo, Hi} to the n elements.  Lemma: with the *)
(* growth rules of the implementation (ceil(log2 n) word bits for sums,    *)
(* n*n_word / n*n_frac for products, both for dot) the exact result is     *)
(* inside the grown format - "never overflows even when every element is   *)
(* at an extreme" - and the rules are tight for n a power of two.          *)
(***************************************************************************)
EXTENDS Integers, Sequences, TLC, Json
CONSTANTS W, NMAX
N == INSTANCE FxpN
VARIABLES t, n, ph
Fmts == { x \in [s : BOOLEAN, w : 1..W, f : 0..W] : x.f <= x.w }
Init == t \in Fmts /\ n \in 1..NMAX /\ ph = 0
Next == ph = 0 /\ ph' = 1 /\ UNCHANGED <<t, n>>
Ext == {N!Lo(t), N!Hi(t)}
Vecs == [1..n -> Ext]
SumFmt == [s |-> t.s, w |-> N!CeilLog2(n) + t.w, f |-> t.f]
ProdFmt == [s |-> t.s, w |-> n * t.w, f |-> n * t.f]
DotFmt == [s |-> t.s, w |-> N!CeilLog2(n) + 2 * t.w, f |-> 2 * t.f]
SumFits == \A v \in Vecs : N!InRange(N!ZSumSeq(v), SumFmt)
        /\ \A i \in 1..n : N!InRange(N!ZSumSeq(SubSeq(v, 1, i)), SumFmt)           \* cumsum
ProdFits == (n * t.w <= 30) => \A v \in Vecs : N!InRange(N!ZProdSeq(v), ProdFmt)
DotFits == (N!CeilLog2(n) + 2 * t.w <= 30) =>
              \A v \in Vecs, u \in Vecs : N!InRange(N!ZSumSeq([k \in 1..n |-> v[k] * u[k]]), DotFmt)
\* tight: one bit less would overflow at an extreme (n a power of two, n >= 2)
SumTight == (n >= 2 /\ 2^N!CeilLog2(n) = n /\ t.s) =>
              \E v \in Vecs : ~N!InRange(N!ZSumSeq(v), [SumFmt EXCEPT !.w = SumFmt.w - 1])
FoldsAgree == \A v \in Vecs :
   /\ N!RedSum(<<v>>, "1", t.f)[1].m = N!ZSumSeq(v)
   /\ N!CumSumM(<<v>>, "1", t.f)[n].m = N!ZSumSeq(v)
   /\ N!SortM(<<v>>, "1", t.f)[1].m = N!ZMinSeq(v) /\ N!SortM(<<v>>, "1", t.f)[n].m = N!ZMaxSeq(v)
   /\ N!RedMax(<<v>>, "none", t.f)[1].m = N!ZMaxSeq(v)
I_SumFits == ph = 0 \/ SumFits
I_ProdFits == ph = 0 \/ ProdFits
I_DotFits == ph = 0 \/ DotFits
I_SumTight == ph = 0 \/ SumTight
I_FoldsAgree == ph = 0 \/ FoldsAgree
Emit == ph = 0 \/ PrintT(ToJson([k |-> "reduce", s |-> t.s, w |-> t.w, f |-> t.f, n |-> n]))
=============================================================================
