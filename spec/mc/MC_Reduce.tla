------------------------------ MODULE MC_Reduce ------------------------------
(***************************************************************************)
(* Small world for reductions and linear algebra (C15): one TLC state per  *)
(* (format n_word <= W, length n <= NMAX); inside each state EVERY         *)
(* assignment of the extremes {Lo, Hi} to the n elements.  Lemma: with the *)
(* growth rules of the implementation (ceil(log2 n) word bits for sums,    *)
(* n*n_word / n*n_frac for products, both for dot) the exact result is     *)
(* inside the grown format - "never overflows even when every element is   *)
(* at an extreme" - and the rules are tight for n a power of two.          *)
(***************************************************************************)
EXTENDS Integers, Sequences, TLC, Json
CONSTANTS W, NMAX, FLO, FHI        \* formats: n_word <= W, -FLO <= n_frac <= n_word + FHI
N == INSTANCE FxpN
VARIABLES t, n, ph
Fmts == { x \in [s : BOOLEAN, w : 1..W, f : (-FLO)..(W + FHI)] : x.f <= x.w + FHI }
Init == t \in Fmts /\ n \in 1..NMAX /\ ph = 0
Next == ph = 0 /\ ph' = 1 /\ UNCHANGED <<t, n>>
Ext == {N!Lo(t), N!Hi(t)}
Vecs == [1..n -> Ext]
SumFmt == [s |-> t.s, w |-> N!CeilLog2(n) + t.w, f |-> t.f]
ProdFmt == [s |-> t.s, w |-> n * t.w, f |-> n * t.f]
DotFmt == [s |-> t.s, w |-> N!CeilLog2(n) + 2 * t.w, f |-> 2 * t.f]
SumFits == \A v \in Vecs : N!InRange(N!ZSumSeq(v), SumFmt)
        /\ \A i \in 1..n : N!InRange(N!ZSumSeq(SubSeq(v, 1, i)), SumFmt)           \* cumsum
ProdFits == (n * t.w <= 30) => \A v \in Vecs : N!InRange(N!ZProdSeq(v), ProdFmt)
DotFits == (N!CeilLog2(n) + 2 * t.w <= 30) =>
              \A v \in Vecs, u \in Vecs : N!InRange(N!ZSumSeq([k \in 1..n |-> v[k] * u[k]]), DotFmt)
\* cumprod: EVERY partial product must be representable in the result format.  "n words, n fractions" holds the last product only:
\* with a negative integer length the first partial products are the largest, with a negative fraction length they are the finest.
\* CumProdFmt is the rule of the library after repair D27 (TLC refutes the lemma for the old rule ProdFmt: CumProdOldRule below)
Sg == IF t.s THEN 1 ELSE 0
CumProdFmt == LET F == IF t.f >= 0 THEN n * t.f ELSE t.f
                  NI == N!MaxI(n * t.w - Sg - n * t.f, t.w - Sg - t.f)
              IN [s |-> t.s, w |-> Sg + NI + F, f |-> F]
PrefixFits(v, i, tz) == LET p == [m |-> N!ZProdSeq(SubSeq(v, 1, i)), e |-> -(i * t.f) + tz.f] IN
                        N!IsIntD(p) /\ N!InRange(N!FloorD(p), tz)
Small == n * N!MaxI(t.w, t.f + 1) + (IF t.f < 0 THEN -(n * t.f) ELSE 0) <= 28         \* (native integers)
CumProdFits == (Small /\ CumProdFmt.w >= 1) => \A v \in Vecs : \A i \in 1..n : PrefixFits(v, i, CumProdFmt)
CumProdOldRule == (Small /\ CumProdFmt.w >= 1) => \A v \in Vecs : \A i \in 1..n : PrefixFits(v, i, ProdFmt)
\* tight: one bit less would overflow at an extreme (n a power of two, n >= 2)
SumTight == (n >= 2 /\ 2^N!CeilLog2(n) = n /\ t.s) =>
              \E v \in Vecs : ~N!InRange(N!ZSumSeq(v), [SumFmt EXCEPT !.w = SumFmt.w - 1])
FoldsAgree == \A v \in Vecs :
   /\ N!RedSum(<<v>>, "1", t.f)[1].m = N!ZSumSeq(v)
   /\ N!CumSumM(<<v>>, "1", t.f)[n].m = N!ZSumSeq(v)
   /\ N!SortM(<<v>>, "1", t.f)[1].m = N!ZMinSeq(v) /\ N!SortM(<<v>>, "1", t.f)[n].m = N!ZMaxSeq(v)
   /\ N!RedMax(<<v>>, "none", t.f)[1].m = N!ZMaxSeq(v)
I_SumFits == ph = 0 \/ SumFits
I_ProdFits == ph = 0 \/ ProdFits
I_DotFits == ph = 0 \/ DotFits
I_SumTight == ph = 0 \/ SumTight
I_CumProdFits == ph = 0 \/ CumProdFits
I_CumProdOldRule == ph = 0 \/ CumProdOldRule
I_FoldsAgree == ph = 0 \/ FoldsAgree
Emit == ph = 0 \/ PrintT(ToJson([k |-> "reduce", s |-> t.s, w |-> t.w, f |-> t.f, n |-> n]))
=============================================================================
