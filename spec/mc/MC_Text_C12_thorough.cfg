CONSTANTS W = 1
WD = 40
MODE = "C12"
INIT Init
NEXT Next
CHECK_DEADLOCK FALSE
INVARIANT I_DtypeRoundTrip
INVARIANT Emit12
