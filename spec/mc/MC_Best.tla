------------------------------- MODULE MC_Best -------------------------------
(***************************************************************************)
(* Exhaustive small world for size inference (C06).  One TLC state per     *)
(* (array of <= 2 dyadic values k/2^f, signedness argument, which of       *)
(* n_word / n_frac / n_int are given).  FxpBest transcribes _init_size +   *)
(* set_best_sizes (fraction search loop, msb integer-bit loop, caps); the  *)
(* lemma is that it returns the MINIMAL exact format (and the documented   *)
(* partial variants) whenever that format fits the configured maximum.     *)
(* The maximum is scaled down (NWMAX = 8) so the cap branch is reachable;  *)
(* the real constructor accepts n_word_max, so the same cases replay.      *)
(***************************************************************************)
EXTENDS Integers, Sequences, FiniteSets, TLC, Json
CONSTANTS S, NWMAX, KMAX, FMAX
B == INSTANCE FxpBest
VARIABLES v1, v2, sa, given, ph
Vals == { k * 2^(S - f) : k \in -KMAX..KMAX, f \in 0..FMAX }
Init == /\ v1 \in Vals /\ v2 \in Vals /\ v1 <= v2 /\ sa \in {"none", "T", "F"} /\ (sa = "F" => v1 >= 0)
        /\ given \in {"none", "w", "f", "if", "iw"} /\ ph = 0
Next == ph = 0 /\ ph' = 1 /\ UNCHANGED <<v1, v2, sa, given>>
Vs == {v1, v2}
signed == sa # "F"
sg == IF signed THEN 1 ELSE 0
Max(a, b) == IF a >= b THEN a ELSE b
Min(a, b) == IF a <= b THEN a ELSE b
F == B!MinF(Vs)
W0 == B!MinW(Vs, signed, F)
NI == Max(0, W0 - F - sg)
\* the sizes the "caller" passes in each variant (chosen from the values so that every branch is hit)
ArgW == CASE given = "w" -> Min(NWMAX, Max(1, W0 + ((v2 \div 7) % 3) - 1))
          [] given = "iw" -> Min(NWMAX, Max(NI + sg, W0 + ((v2 \div 5) % 2)))
          [] OTHER -> B!NONE
ArgF == CASE given = "f" -> F + ((v2 \div 3) % 2)
          [] given = "if" -> F + ((v2 \div 3) % 2)
          [] OTHER -> B!NONE
ArgI == CASE given \in {"if", "iw"} -> NI + ((v2 \div 11) % 2)
          [] OTHER -> B!NONE
Got == B!InitSize(Vs, sa, ArgW, ArgF, ArgI)
Expected ==
   CASE given = "none" -> [s |-> signed, w |-> W0, f |-> F]
     [] given = "w"  -> [s |-> signed, w |-> ArgW, f |-> Min(ArgW - sg - NI, F)]
     [] given = "f"  -> [s |-> signed, w |-> Max(B!MinW(Vs, signed, ArgF), ArgF + sg), f |-> ArgF]
     [] given = "if" -> [s |-> signed, w |-> ArgI + ArgF + sg, f |-> ArgF]
     [] given = "iw" -> [s |-> signed, w |-> ArgW, f |-> ArgW - ArgI - sg]
AlgoIsMinimal == Expected.w <= NWMAX => Got = Expected
NeverAboveCap == given \in {"none", "w", "f"} => Got.w <= NWMAX      \* (n_int + one other size: the third follows arithmetically)
\* minimality stated directly (no closed form): no format with fewer fraction bits is exact, none with fewer word bits holds all
MinimalityDirect == given = "none" /\ W0 <= NWMAX =>
   /\ \A g \in 0..(F - 1) : \E V \in Vs : V % 2^(S - g) # 0
   /\ \A u \in 0..(W0 - 1) : ~B!HoldsAll(Vs, signed, F, u)
   /\ B!HoldsAll(Vs, signed, F, W0)
\* beyond the cap: the capped format keeps the whole integer part (so every value is quantized with error below one LSB);
\* only fraction bits are given up.  (Before the repair D24 the integer-bit loop stopped at the cap measured on the SCALED
\* values, so long fractions next to large values lost integer bits: TLC refutes this lemma for the old loop limit.)
CapKeepsIntegerPart == (given = "none" /\ W0 > NWMAX /\ NI + sg <= NWMAX) =>
   Got = [s |-> signed, w |-> NWMAX, f |-> NWMAX - sg - NI]
I_CapKeepsIntegerPart == ph = 0 \/ CapKeepsIntegerPart
I_AlgoIsMinimal == ph = 0 \/ AlgoIsMinimal
I_NeverAboveCap == ph = 0 \/ NeverAboveCap
I_MinimalityDirect == ph = 0 \/ MinimalityDirect
Emit == ph = 0 \/ PrintT(ToJson([k |-> "infer", v1 |-> v1, v2 |-> v2, S |-> S, sa |-> sa, given |-> given,
                                   nw |-> ArgW, nf |-> ArgF, ni |-> ArgI, cap |-> NWMAX]))
=============================================================================
