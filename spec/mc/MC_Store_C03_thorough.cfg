CONSTANTS W = 6
FLO = 8
FHI = 8
INIT Init
NEXT Next
CHECK_DEADLOCK FALSE
INVARIANT I_WrapUnique
INVARIANT I_ShiftInvariant
INVARIANT I_InRangeAlways
INVARIANT Emit
