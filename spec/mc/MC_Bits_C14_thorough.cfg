CONSTANTS W = 6
MODE = "C14"
INIT Init
NEXT Next
CHECK_DEADLOCK FALSE
INVARIANT I_ExpandLossless
INVARIANT I_KeepArithmetic
INVARIANT Emit
