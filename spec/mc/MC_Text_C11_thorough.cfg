CONSTANTS W = 8
WD = 1
MODE = "C11"
INIT Init
NEXT Next
CHECK_DEADLOCK FALSE
INVARIANT I_ImageShape
INVARIANT I_RoundTrip
INVARIANT I_BaseReprOK
INVARIANT Emit11
