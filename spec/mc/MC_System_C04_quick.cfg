CONSTANTS a = a
b = b
c = c
Obj = {a, b}
NULL = NULL
ObjSeq <- ObjSeqDef
FmtSel = {1, 2}
RndSel = {1}
OvfSel = {1}
GridSel = {1, 2, 4, 6}
Acts <- ActsC04q
Depth = 3
EXT = 4
INIT Init
NEXT Next
CHECK_DEADLOCK FALSE
VIEW View
CONSTRAINT Bound
INVARIANT WellFormed
PROPERTY Sticky
PROPERTY ResetLeavesRest
PROPERTY FlagIff
PROPERTY InaccPropagates
INVARIANT EmitHist
