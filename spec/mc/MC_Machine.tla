----------------------------- MODULE MC_Machine ------------------------------
EXTENDS Integers, TLC
CONSTANTS MW, MF, FIXED
M == INSTANCE Machine
VARIABLES x, y, ph
Fmts == { t \in [s : BOOLEAN, w : 2..(MW + 1), f : {0, 1, 3, MW - 2, MW}] : t.f <= t.w }
Lo(t) == IF t.s THEN -(2^(t.w - 1)) ELSE 0
Hi(t) == IF t.s THEN 2^(t.w - 1) - 1 ELSE 2^t.w - 1
Codes(t) == {Lo(t), Hi(t), Lo(t) + 1, Hi(t) - 1, 0, 1, Hi(t) \div 2 + 1} \cap (Lo(t)..Hi(t))
Init == x \in Fmts /\ y \in Fmts /\ ph = 0
Next == ph = 0 /\ ph' = 1 /\ UNCHANGED <<x, y>>
Res(op, cx, cy) == IF FIXED THEN M!RawFixed(op, x, cx, y, cy) ELSE M!RawPinned(op, x, cx, y, cy)
Ops == {"add", "sub", "mul"}
NoSilentError == ph = 0 \/ \A op \in Ops, cx \in Codes(x), cy \in Codes(y) :
   LET r == Res(op, cx, cy) IN r = M!ERR \/ r.v = M!Exact(op, x, cx, y, cy)
NoError == ph = 0 \/ \A op \in Ops, cx \in Codes(x), cy \in Codes(y) : Res(op, cx, cy) # M!ERR
=============================================================================
