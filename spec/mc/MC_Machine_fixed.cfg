CONSTANTS MW = 8
MF = 5
FIXED = TRUE
INIT Init
NEXT Next
CHECK_DEADLOCK FALSE
INVARIANT NoSilentError
INVARIANT NoError
