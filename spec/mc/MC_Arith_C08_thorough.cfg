CONSTANTS W = 4
FLO = 0
FHI = 0
NEEDNINT = TRUE
INIT Init
NEXT Next
CHECK_DEADLOCK FALSE
INVARIANT I_SingleRounding
INVARIANT I_UnaryExact
INVARIANT Emit
