CONSTANTS S = 6
NWMAX = 8
KMAX = 20
FMAX = 4
INIT Init
NEXT Next
CHECK_DEADLOCK FALSE
INVARIANT I_AlgoIsMinimal
INVARIANT I_NeverAboveCap
INVARIANT I_MinimalityDirect
INVARIANT Emit
