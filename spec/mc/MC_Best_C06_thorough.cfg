CONSTANTS S = 6
NWMAX = 8
KMAX = 48
FMAX = 3
INIT Init
NEXT Next
CHECK_DEADLOCK FALSE
INVARIANT I_AlgoIsMinimal
INVARIANT I_NeverAboveCap
INVARIANT I_CapKeepsIntegerPart
INVARIANT I_MinimalityDirect
INVARIANT Emit
