CONSTANTS S = 6
NWMAX = 8
KMAX = 31
FMAX = 2
INIT Init
NEXT Next
CHECK_DEADLOCK FALSE
INVARIANT I_AlgoIsMinimal
INVARIANT I_NeverAboveCap
INVARIANT I_MinimalityDirect
INVARIANT Emit
