------------------------------ MODULE MC_Functor -----------------------------
(***************************************************************************)
(* The property-level definitions are a functor over the integer           *)
(* interface.  This instance checks that the two instantiations - native   *)
(* integers (used for the exhaustive small worlds) and BigInt limb         *)
(* integers with a SMALL base (so that small values already span several   *)
(* limbs) - agree on quantization, wrap, arithmetic, division relations,   *)
(* bit patterns, string images and minimal formats.  Together with         *)
(* MC_BigInt (limb operators = integer operators, incl. base 2^15) this is *)
(* the argument that verdicts computed over BigInt on 52..256-bit formats  *)
(* mean what the small-world model checking established.                   *)
(***************************************************************************)
EXTENDS Integers, Sequences, TLC
CONSTANTS B, LB, W
N == INSTANCE FxpN
G == INSTANCE FxpB
VARIABLES t, r, o, ph
Init == /\ t \in { x \in [s : BOOLEAN, w : 1..W, f : (-2)..(W + 2)] : x.f <= x.w + 2 }
        /\ r \in N!Roundings /\ o \in N!Overflows /\ ph = 0
Next == ph = 0 /\ ph' = 1 /\ UNCHANGED <<t, r, o>>
ZB(i) == G!Big!OfInt(i)
ToI(z) == G!Big!ToInt(z)
LoI == N!Lo(t)
HiI == N!Hi(t)
Span == 2^t.w
Grid == (4 * (LoI - Span))..(4 * (HiI + Span))
QuantizeAgrees == \A k4 \in Grid :
   LET qn == N!Quantize([m |-> k4, e |-> -t.f - 2], t, r, o)
       qb == G!Quantize([m |-> ZB(k4), e |-> -t.f - 2], t, r, o)
   IN /\ ToI(qb.code) = qn.code /\ qb.code = ZB(qn.code)
      /\ qb.over = qn.over /\ qb.under = qn.under /\ qb.inexact = qn.inexact
      /\ G!RoundRel([m |-> ZB(k4), e |-> -2], ZB(qn.code), r) = N!RoundRel([m |-> k4, e |-> -2], qn.code, r)
      /\ G!WrapOK(ZB(k4), ZB(qn.code), t) = N!WrapOK(k4, qn.code, t)
Codes == LoI..HiI
t2 == [s |-> ~t.s, w |-> (IF t.w > 1 THEN t.w - 1 ELSE 2), f |-> (IF t.f > 0 THEN t.f - 1 ELSE 1)]
ArithAgrees == \A cx \in Codes, cy \in N!Lo(t2)..N!Hi(t2) :
   /\ \A op \in {"add", "sub", "mul"} :
        LET en == N!ExactOp(op, cx, t, cy, t2)  eb == G!ExactOp(op, ZB(cx), t, ZB(cy), t2)
        IN eb.e = en.e /\ eb.m = ZB(en.m) /\ G!Grow(op, t, t2) = N!Grow(op, t, t2)
   /\ (cy # 0 /\ t.f >= 0 /\ t2.f >= 0) =>
        \A cz \in (-4)..4 :
           LET tz == N!GrowTrueDiv(t, t2) IN
           /\ G!TrueDivOK(ZB(cx), t, ZB(cy), t2, ZB(cz), tz) = N!TrueDivOK(cx, t, cy, t2, cz, tz)
           /\ G!FloorQuotIs(ZB(cz), ZB(cx), t, ZB(cy), t2) = N!FloorQuotIs(cz, cx, t, cy, t2)
TextAgrees == \A c \in Codes :
   /\ G!BinImage(ZB(c), t.w) = N!BinImage(c, t.w)
   /\ G!HexImage(ZB(c), t.w) = N!HexImage(c, t.w)
   /\ G!Pattern(ZB(c), t.w) = N!Pattern(c, t.w)
   /\ G!FromImage(G!PatToNat(G!Pattern(ZB(c), t.w)), t) = ZB(c)
   /\ G!URaw(ZB(c), t) = ZB(N!URaw(c, t))
   /\ \A b \in {2, 10, 16} : G!IsBaseRepr(<<49, 48>>, ZB(c), b) = N!IsBaseRepr(<<49, 48>>, c, b)
   /\ G!MinWordOf(ZB(c), t.s) = N!MinWordOf(c, t.s)
   /\ (t.f >= -1 => G!MinimalFmt(<<[m |-> ZB(c), e |-> -t.f]>>, TRUE) = N!MinimalFmt(<<[m |-> c, e |-> -t.f]>>, TRUE))
I_QuantizeAgrees == ph = 0 \/ QuantizeAgrees
I_ArithAgrees == ph = 0 \/ ArithAgrees
I_TextAgrees == ph = 0 \/ TextAgrees
=============================================================================
