CONSTANTS a = a
b = b
c = c
Obj = {a, b, c}
NULL = NULL
ObjSeq <- ObjSeqDef
FmtSel = {1, 3, 5}
RndSel = {1, 2}
OvfSel = {1}
GridSel = {2, 3, 6}
Acts <- ActsC20
Depth = 8
EXT = 4
INIT Init
NEXT Next
CHECK_DEADLOCK FALSE
VIEW View
INVARIANT EmitFull
