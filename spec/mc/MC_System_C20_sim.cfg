CONSTANTS a = a
b = b
c = c
Obj = {a, b, c}
NULL = NULL
ObjSeq <- ObjSeqDef
FmtSel = {1, 3}
RndSel = {1, 2}
OvfSel = {1}
GridSel = {2, 3}
Acts <- ActsC20
Depth = 99
EXT = 4
INIT Init
NEXT Next
CHECK_DEADLOCK FALSE
VIEW View
INVARIANT EmitHist
