------------------------------ MODULE FxpTrace -------------------------------
(***************************************************************************)
(* Trace validation of the heap model.  The harness executed behaviours    *)
(* (action sequences exported by MC_System's transition cover or by TLC    *)
(* -simulate, or seeded random programs) on REAL Fxp objects and logged,    *)
(* after every call, the projection of EVERY object it holds (format,      *)
(* codes, config modes, status flags, derived attributes) plus the         *)
(* callbacks a recorder saw.  One ndjson line per call:                    *)
(*   [b |-> behaviour id, i |-> step (1 = fresh heap), a |-> action record *)
(*    of FxpSystem, obs |-> [x |-> projection or NullRec], cb, raised]      *)
(* Each line is one TLC step: st' = Step(st, a) and the logged projection  *)
(* of every object is compared with the specification's.  Verdicts are     *)
(* total across behaviours: a mismatch prints                              *)
(*   <<"VERDICT", row id, object index, property, clause>>                 *)
(* and the rest of THAT behaviour is skipped (the heap is out of sync);    *)
(* the next behaviour starts from the empty heap again.                    *)
(***************************************************************************)
EXTENDS Integers, Sequences, FiniteSets, TLC, Json, IOUtils
ObjS == {"a", "b", "c", "d"}
ObjQ == <<"a", "b", "c", "d">>
VARIABLES st, last, hist, l, ok
NullRec == [null |-> TRUE]          \* "no object in this slot" (a record: TLC cannot compare records with strings)
Sys == INSTANCE FxpSystem WITH Obj <- ObjS, NULL <- NullRec, ObjSeq <- ObjQ, FmtSel <- {}, RndSel <- {}, OvfSel <- {},
                               GridSel <- {}, Acts <- {}, Depth <- 0, EXT <- 64
N == INSTANCE FxpN
Rows == ndJsonDeserialize(IOEnv.TRACE_FILE)
Say(e, i, p, clause) == PrintT(<<"VERDICT", e.id, i, p, clause>>)
Chk(cond, e, i, p, clause) == IF cond THEN TRUE ELSE Say(e, i, p, clause)
ObjIdx(x) == CHOOSE i \in DOMAIN ObjQ : ObjQ[i] = x
Proj(o) == [fmt |-> o.fmt, codes |-> o.codes, cfg |-> o.cfg, st |-> o.st]
\* which property a deviation of the TARGET's value/format belongs to, by the kind of call
ValueProp(a) == CASE a.act \in {"New", "NewLike", "Store", "SetItem"} -> "C01" [] a.act = "SetItemFxp" -> "C10"
                  [] a.act \in {"Resize", "CtorLike", "Like", "LikeShallow", "Assign", "DeepCopy", "CopyShallow"} -> "C10"
                  [] a.act = "BinOp" -> "C07" [] a.act = "BinOpOut" -> "C08" [] a.act = "Neg" -> "C08" [] a.act \in {"RShiftKeep", "LShiftKeep"} -> "C14" [] a.act = "Invert" -> "C13"
                  [] a.act \in {"BitOp", "BitMask"} -> "C13" [] a.act = "ShiftExpand" -> "C14" [] a.act = "Reduce" -> "C15"
                  [] a.act = "BinOpConst" -> "C08" [] a.act = "IOp" -> "C07" [] a.act = "SetRaw" -> "C01"
                  [] OTHER -> "C20"
\* Where the model encodes a NAMED DEVIATION that no property states, the validator accepts the alternative a maintainer could
\* legitimately choose (soundness rule 1: a check compares only what its property states):
\*   - the Config of the result of -x, x << n, expanding shifts and reductions: a default Config (today) or a copy of the operand's;
\*   - the inaccuracy flag of -x and of shift results: not inherited (today) or inherited from the operand;
\*   - the flags of ~x, x >> n (trunc), x & y, x & mask: the operand's (a deep copy, today) or those of a fresh object.
CfgFree == {"Neg", "LShiftKeep", "ShiftExpand", "Reduce"}
InaccFree == {"Neg", "LShiftKeep", "ShiftExpand"}
FlagsFree == {"RShiftKeep", "Invert", "BitOp", "BitMask"}
\* compare one object; returns TRUE iff it agrees (prints the first differing field otherwise); src = the operand's record before the call
AgreeObj(e, x, exp, got, isTarget, src) ==
   LET i == ObjIdx(x) IN
   IF exp = NullRec \/ got = NullRec THEN Chk(exp = got, e, i, "C20", IF isTarget THEN "target.exists" ELSE "other.exists")
   ELSE LET g == Proj(got)  act == e.a.act  hasSrc == src # NullRec IN
        IF isTarget
        THEN /\ Chk(g.fmt = exp.fmt, e, i, ValueProp(e.a), "target.format")
             /\ Chk(g.codes = exp.codes, e, i, ValueProp(e.a), "target.codes")
             /\ Chk(g.cfg = exp.cfg \/ (act \in CfgFree /\ hasSrc /\ g.cfg = src.cfg), e, i, "C20", "target.config")
             /\ Chk(g.st.o = exp.st.o \/ (act \in FlagsFree /\ ~g.st.o), e, i, "C04", "target.flag.overflow")
             /\ Chk(g.st.u = exp.st.u \/ (act \in FlagsFree /\ ~g.st.u), e, i, "C04", "target.flag.underflow")
             /\ Chk(g.st.i = exp.st.i \/ (act \in FlagsFree /\ ~g.st.i) \/ (act \in InaccFree /\ hasSrc /\ g.st.i = (exp.st.i \/ src.st.i)),
                    e, i, "C04", "target.flag.inaccuracy")
        ELSE \* an object the call was not about: any change is interference (or a missing write-through)
             /\ Chk(g.fmt = exp.fmt, e, i, "C20", "other.format")
             /\ Chk(g.codes = exp.codes, e, i, "C20", "other.codes")
             /\ Chk(g.cfg = exp.cfg, e, i, "C20", "other.config")
             /\ Chk(g.st = exp.st, e, i, "C20", "other.status")
\* C02 / C18 on what the REAL object reports, independent of the model's expectation
WellFormedObs(e, x, got) ==
   LET i == ObjIdx(x)  t == got.fmt
       val(c) == [m |-> c, e |-> -t.f]
       dy(j) == [m |-> j.m, e |-> j.e]
   IN IF got = NullRec THEN TRUE ELSE      \* (IF, not \/ : inside an action TLC explores both disjuncts)
      (/\ Chk(\A k \in DOMAIN got.codes : N!InRange(got.codes[k], t), e, i, "C02", "range")
       /\ Chk(got.wf.ni = t.w - t.f - (IF t.s THEN 1 ELSE 0), e, i, "C02", "n_int")
       /\ Chk(N!DEq(dy(got.wf.up), val(N!Hi(t))), e, i, "C02", "upper")
       /\ Chk(N!DEq(dy(got.wf.lo), val(N!Lo(t))), e, i, "C02", "lower")
       /\ Chk(N!DEq(dy(got.wf.pr), val(1)), e, i, "C02", "precision")
       /\ Chk(got.wf.dt = N!FxpString(t, FALSE), e, i, "C02", "dtype")
       /\ Chk(got.ext = (t.w >= 64), e, i, "C18", "extended_prec")
       \* the status record stays complete (reset() clears three flags and leaves the rest usable)
       /\ Chk(got.stkeys = <<"extended_prec", "inaccuracy", "overflow", "underflow">>, e, i, "C04", "status-record"))
Judge(e, S1) ==
   LET tgt == Sys!Target(e.a)
       S0 == IF e.i = 1 THEN Sys!InitS ELSE st
       src == IF e.a.act \in (CfgFree \cup InaccFree \cup FlagsFree) THEN S0.objs[e.a.x] ELSE NullRec IN
   /\ \A x \in ObjS : AgreeObj(e, x, S1.objs[x], e.obs[x], x = tgt, src)
   /\ \A x \in ObjS : WellFormedObs(e, x, e.obs[x])
   /\ (e.a.act \in {"Store", "SetItem", "SetItemFxp", "SetRaw"} => Chk(e.cb = Sys!CbStep(IF e.i = 1 THEN Sys!InitS ELSE st, e.a), e, ObjIdx(tgt), "C04", "callbacks"))
   /\ (e.a.act = "SetCfgBad" => Chk(e.raised, e, ObjIdx(tgt), "C20", "invalid-config-accepted"))
   /\ (e.a.act # "SetCfgBad" => Chk(~e.raised, e, 0, ValueProp(e.a), "raised." \o e.err))
   /\ Chk(e.cont, e, 0, "C20", "input-container-modified")
Agrees(e, S1) == /\ \A x \in ObjS : (IF S1.objs[x] = NullRec \/ e.obs[x] = NullRec THEN S1.objs[x] = e.obs[x] ELSE Proj(e.obs[x]) = S1.objs[x])
                 /\ e.raised = (e.a.act = "SetCfgBad")
Init == st = Sys!InitS /\ last = [act |-> "Init"] /\ hist = <<>> /\ l = 1 /\ ok = TRUE
Next == /\ l <= Len(Rows)
        /\ LET e == Rows[l]
               S0 == IF e.i = 1 THEN Sys!InitS ELSE st
               live == e.i = 1 \/ ok
               S1 == Sys!Step(S0, e.a)
           IN IF live
              THEN /\ Judge(e, S1) /\ st' = S1 /\ ok' = Agrees(e, S1)
              ELSE /\ st' = st /\ ok' = FALSE /\ PrintT(<<"SKIPPED", e.id>>)
        /\ l' = l + 1 /\ UNCHANGED <<last, hist>>
Accepted == IF TLCGet("stats").diameter - 1 = Len(Rows)
            THEN PrintT(<<"CONSUMED", Len(Rows)>>)
            ELSE PrintT(<<"UNCONSUMED", TLCGet("stats").diameter - 1, Len(Rows)>>) /\ FALSE
=============================================================================
