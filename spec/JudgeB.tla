-------------------------------- MODULE JudgeB -------------------------------
(* The trace validator over BigInt limb integers: judges observations on formats of any width. *)
EXTENDS Integers, Sequences, TLC, Json, IOUtils
Big == INSTANCE BigInt WITH B <- 32768, LB <- 15
J == INSTANCE JudgeBody WITH ZI <- Big!OfInt, ZAdd <- Big!Add, ZSub <- Big!Sub, ZNeg <- Big!Neg,
   ZMul <- Big!Mul, ZLt <- Big!Lt, ZLe <- Big!Le, ZIsZero <- Big!IsZero, ZShl <- Big!Shl,
   ZShr <- Big!FloorShr, ZMod2 <- Big!ModPow2, ZBit <- Big!Bit, ZBitLen <- Big!BitLen,
   ZLowZeros <- Big!LowZeros, ZW <- Big!FromWire

(* stepping through the recorded rows: kept in the ROOT module so that TLC caches Rows *)
Rows == ndJsonDeserialize(IOEnv.TRACE_FILE)
VARIABLE l
Init == l = 1
Next == l <= Len(Rows) /\ J!JudgeRow(Rows[l]) /\ l' = l + 1
\* one state per consumed row plus the initial one
Accepted == IF TLCGet("stats").diameter - 1 = Len(Rows)
            THEN PrintT(<<"CONSUMED", Len(Rows)>>)
            ELSE PrintT(<<"UNCONSUMED", TLCGet("stats").diameter - 1, Len(Rows)>>) /\ FALSE
=============================================================================
