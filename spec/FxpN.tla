-------------------------------- MODULE FxpN --------------------------------
(* FxpMath/FxpOps/FxpText instantiated with TLC's NATIVE integers (|x| < 2^31): *)
(* used by the exhaustive small-world model-checking instances.                 *)
EXTENDS Integers, Sequences
NI(i) == i
NAdd(a, b) == a + b
NSub(a, b) == a - b
NNeg(a) == -a
NMul(a, b) == a * b
NLt(a, b) == a < b
NLe(a, b) == a <= b
NIsZero(a) == a = 0
NShl(a, k) == a * (2^k)
NShr(a, k) == a \div (2^k)          \* TLA+ \div floors
NMod2(a, k) == a % (2^k)
NBit(a, i) == (a \div (2^i)) % 2
RECURSIVE NBitLenNat(_)
NBitLenNat(n) == IF n = 0 THEN 0 ELSE 1 + NBitLenNat(n \div 2)
NBitLen(a) == NBitLenNat(IF a < 0 THEN -a ELSE a)
RECURSIVE NLowZeros(_)
NLowZeros(a) == IF a % 2 = 1 THEN 0 ELSE 1 + NLowZeros(a \div 2)
INSTANCE FxpText WITH ZI <- NI, ZAdd <- NAdd, ZSub <- NSub, ZNeg <- NNeg, ZMul <- NMul,
   ZLt <- NLt, ZLe <- NLe, ZIsZero <- NIsZero, ZShl <- NShl, ZShr <- NShr, ZMod2 <- NMod2,
   ZBit <- NBit, ZBitLen <- NBitLen, ZLowZeros <- NLowZeros
=============================================================================
