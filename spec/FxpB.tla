-------------------------------- MODULE FxpB --------------------------------
(* FxpMath/FxpOps/FxpText instantiated with BigInt limb integers: used to judge *)
(* recorded executions of the real implementation on formats of any width.      *)
EXTENDS Integers, Sequences
CONSTANTS B, LB
Big == INSTANCE BigInt
INSTANCE FxpText WITH ZI <- Big!OfInt, ZAdd <- Big!Add, ZSub <- Big!Sub, ZNeg <- Big!Neg,
   ZMul <- Big!Mul, ZLt <- Big!Lt, ZLe <- Big!Le, ZIsZero <- Big!IsZero, ZShl <- Big!Shl,
   ZShr <- Big!FloorShr, ZMod2 <- Big!ModPow2, ZBit <- Big!Bit, ZBitLen <- Big!BitLen,
   ZLowZeros <- Big!LowZeros
=============================================================================
