------------------------------ MODULE FxpSystem ------------------------------
(***************************************************************************)
(* The library as a STATE MACHINE: a small heap of mutable fixed-point     *)
(* objects and the public calls that create, mutate and derive them.       *)
(*                                                                         *)
(* State (one record S, so that the same step function serves the model    *)
(* checker and the trace validator):                                       *)
(*   S.objs : Obj -> NULL | [fmt, codes, cfg, st]                          *)
(*              fmt   = [s, w, f]                                          *)
(*              codes = sequence of integer codes (the value buffer as     *)
(*                      this object sees it)                               *)
(*              cfg   = [rnd, ovf]    (the part of Config the properties   *)
(*                      talk about)                                        *)
(*              st    = [o, u, i]     (sticky status flags)                *)
(*   S.mem  : set of blocks (sets with >= 2 elements) of positions <<x,j>> *)
(*            that are THE SAME MEMORY: indexing returns a view            *)
(*   S.csh, S.ssh : set of blocks of objects sharing one Config object /   *)
(*            one status dict (only Python's shallow copy() creates them)  *)
(* Sharing is kept as partitions, not as cell ids, so two heaps that       *)
(* differ only in allocation order are the same state.                     *)
(*                                                                         *)
(* Each public entry point is one action record a = [act |-> ..., args]    *)
(* and Step(S, a) is the successor.  Deliberate deviations of the real     *)
(* code from the ideal are named actions (CopyShallow, LShiftKeepClamps).  *)
(* History variables: last (the action taken, with the callbacks it        *)
(* fired) and hist (the behaviour so far) are hidden from the fingerprint  *)
(* by the VIEW; hist is what the replay harness executes.                  *)
(***************************************************************************)
EXTENDS Integers, Sequences, FiniteSets, TLC, Json
CONSTANTS Obj, NULL, ObjSeq,                  \* ObjSeq: the objects in a fixed order (new objects take the FIRST free slot)
          FmtSel, RndSel, OvfSel, GridSel,     \* small-scope selections (index sets into the tables below)
          Acts,                                \* which action kinds are enabled in this instance
          Depth, EXT                           \* depth bound; scaled "extended precision" threshold
N == INSTANCE FxpN
A == INSTANCE FxpAlgo WITH MW <- 16            \* the implementation-shaped shift algorithms (growth of << and >> in expand mode)

AllFmts == << [s |-> TRUE, w |-> 3, f |-> 1], [s |-> FALSE, w |-> 3, f |-> 0], [s |-> TRUE, w |-> 4, f |-> 2], [s |-> FALSE, w |-> 2, f |-> 2],
             [s |-> FALSE, w |-> 3, f |-> 1], [s |-> TRUE, w |-> 4, f |-> 1] >>          \* (6: s3/1 with one more word bit - a resize that keeps every code)
Fmts == { AllFmts[i] : i \in FmtSel }
AllRnd == <<"trunc", "around", "floor", "ceil">>
Rnds == { AllRnd[i] : i \in RndSel }
AllOvf == <<"saturate", "wrap">>
Ovfs == { AllOvf[i] : i \in OvfSel }
\* inputs on the quarter-LSB grid of the format: k4 means the value k4 * 2^(-f-2)
\*   1: one LSB (exact)   2: above the maximum and inexact   3: a tie (inexact)   4: below the minimum, inexact   5: the maximum (exact)
\*   6: above the maximum, an exact multiple of the LSB      7: below the minimum, an exact multiple of the LSB
AllGrid(t) == << 4, 4 * N!Hi(t) + 6, 2, 4 * N!Lo(t) - 5, 4 * N!Hi(t), 4 * (N!Hi(t) + 2), 4 * (N!Lo(t) - 1) >>
Grid(t) == { AllGrid(t)[i] : i \in GridSel }
Val(k4, t) == [m |-> k4, e |-> -t.f - 2]
Q(k4, t, c) == N!Quantize(Val(k4, t), t, c.rnd, c.ovf)
Clean == [o |-> FALSE, u |-> FALSE, i |-> FALSE]
OrSt(a, b) == [o |-> a.o \/ b.o, u |-> a.u \/ b.u, i |-> a.i \/ b.i]
FoldQ(qs) == [o |-> \E j \in DOMAIN qs : qs[j].over, u |-> \E j \in DOMAIN qs : qs[j].under, i |-> \E j \in DOMAIN qs : qs[j].inexact]
\* callbacks fired by one write: the conditions that occurred, each once, in this order, then one value change
CbOf(fl) == (IF fl.o THEN <<"overflow">> ELSE <<>>) \o (IF fl.u THEN <<"underflow">> ELSE <<>>)
            \o (IF fl.i THEN <<"inaccuracy">> ELSE <<>>) \o <<"change">>
DefaultCfg == [rnd |-> "trunc", ovf |-> "saturate"]

(******************************** the heap *********************************)
InitS == [objs |-> [x \in Obj |-> NULL], mem |-> {}, csh |-> {}, ssh |-> {}]
Live(S) == { x \in Obj : S.objs[x] # NULL }
\* blocks of a partition with the element removed / positions of an object removed
DropFrom(P, keep(_)) == { b \in { { e \in blk : keep(e) } : blk \in P } : Cardinality(b) >= 2 }
BlockOf(P, e) == IF \E b \in P : e \in b THEN CHOOSE b \in P : e \in b ELSE {e}
Join(P, e1, e2) == LET b == BlockOf(P, e1) \cup BlockOf(P, e2) IN { c \in P : c \cap b = {} } \cup {b}
\* write code c at position <<x, j>>: every position that is the same memory sees it
Poke(S, x, j, c) ==
   LET blk == BlockOf(S.mem, <<x, j>>) IN
   [S EXCEPT !.objs = [y \in Obj |-> IF S.objs[y] = NULL THEN NULL
                                     ELSE [S.objs[y] EXCEPT !.codes = [k \in DOMAIN S.objs[y].codes |->
                                              IF <<y, k>> \in blk THEN c ELSE S.objs[y].codes[k]]]]]
\* status / config updates reach every object sharing the dict / the Config
SetSt(S, x, st) == LET blk == BlockOf(S.ssh, x) IN
   [S EXCEPT !.objs = [y \in Obj |-> IF y \in blk /\ S.objs[y] # NULL THEN [S.objs[y] EXCEPT !.st = st] ELSE S.objs[y]]]
SetCf(S, x, cf) == LET blk == BlockOf(S.csh, x) IN
   [S EXCEPT !.objs = [y \in Obj |-> IF y \in blk /\ S.objs[y] # NULL THEN [S.objs[y] EXCEPT !.cfg = cf] ELSE S.objs[y]]]
\* x is (re)bound to a fresh buffer: its positions leave every memory block
Unlink(S, x) == [S EXCEPT !.mem = DropFrom(S.mem, LAMBDA e : e[1] # x)]
\* x becomes a brand-new object (fresh Config, fresh status dict, fresh buffer)
Forget(S, x) == [Unlink(S, x) EXCEPT !.csh = DropFrom(S.csh, LAMBDA e : e # x), !.ssh = DropFrom(S.ssh, LAMBDA e : e # x)]
Put(S, x, rec) == [S EXCEPT !.objs[x] = rec]

(******************************** actions **********************************)
\* y = Fxp(values, signed, n_word, n_frac, rounding=, overflow=)            fresh everything
DoNew(S, a) == LET c == [rnd |-> a.r, ovf |-> a.o]
                   qs == [j \in DOMAIN a.ks |-> Q(a.ks[j], a.fmt, c)]
               IN Put(Forget(S, a.x), a.x, [fmt |-> a.fmt, codes |-> [j \in DOMAIN qs |-> qs[j].code], cfg |-> c, st |-> FoldQ(qs)])
\* x(values) / x.set_val(values): x.val is REBOUND to a new array (views of the old buffer keep the old memory)
DoStore(S, a) == LET ob == S.objs[a.x]
                     qs == [j \in DOMAIN a.ks |-> Q(a.ks[j], ob.fmt, ob.cfg)]
                     S1 == Put(Unlink(S, a.x), a.x, [ob EXCEPT !.codes = [j \in DOMAIN qs |-> qs[j].code]])
                 IN SetSt(S1, a.x, OrSt(ob.st, FoldQ(qs)))
\* x[j] = value: in place, through the buffer
DoSetItem(S, a) == LET ob == S.objs[a.x]  q == Q(a.k4, ob.fmt, ob.cfg)
                   IN SetSt(Poke(S, a.x, a.j, q.code), a.x, OrSt(ob.st, FoldQ(<<q>>)))
\* x[j] = y (y a one-element fixed-point object): converted into x's format under x's modes, in place; x inherits y's inaccuracy
DoSetItemFxp(S, a) == LET ob == S.objs[a.x]  oy == S.objs[a.y]
                          q == N!Convert(oy.codes[1], oy.fmt, ob.fmt, ob.cfg.rnd, ob.cfg.ovf)
                      IN SetSt(Poke(S, a.x, a.j, q.code), a.x, OrSt(OrSt(ob.st, [o |-> FALSE, u |-> FALSE, i |-> oy.st.i]), FoldQ(<<q>>)))
\* y = x[sel]: a VIEW of the values (sel: "one" = x[j:j+1], "rev" = x[::-1] strided, "all" = x[:]); own copy of the Config, fresh status
ViewMap(ob, a) == CASE a.sel = "one" -> <<a.j>> [] a.sel = "rev" -> [k \in DOMAIN ob.codes |-> Len(ob.codes) + 1 - k]
                    [] a.sel = "all" -> [k \in DOMAIN ob.codes |-> k]
DoGetItem(S, a) == LET ob == S.objs[a.x]
                       mp == ViewMap(ob, a)
                       S1 == Put(Forget(S, a.y), a.y, [fmt |-> ob.fmt, codes |-> [k \in DOMAIN mp |-> ob.codes[mp[k]]], cfg |-> ob.cfg, st |-> Clean])
                       RECURSIVE link(_, _)
                       link(T, k) == IF k = 0 THEN T ELSE link([T EXCEPT !.mem = Join(T.mem, <<a.y, k>>, <<a.x, mp[k]>>)], k - 1)
                   IN link(S1, Len(mp))
\* convert the codes of a source into format/config of a destination template
ConvAll(codes, ts, td, c) == [j \in DOMAIN codes |-> N!Convert(codes[j], ts, td, c.rnd, c.ovf)]
CodesOf(qs) == [j \in DOMAIN qs |-> qs[j].code]
\* y = Fxp(x, like=t): template's format and a copy of its Config, fresh status + this store's flags + x's inaccuracy
DoCtorLike(S, a) == LET ox == S.objs[a.x]  ot == S.objs[a.t]
                        qs == ConvAll(ox.codes, ox.fmt, ot.fmt, ot.cfg)
                        st == OrSt(FoldQ(qs), [o |-> FALSE, u |-> FALSE, i |-> ox.st.i])
                    IN Put(Forget(S, a.y), a.y, [fmt |-> ot.fmt, codes |-> CodesOf(qs), cfg |-> ot.cfg, st |-> st])
\* y = Fxp(values, like=t)  /  Fxp.template = t; y = Fxp(values): the template's format and a COPY of its Config, fresh status
\* via "config": Fxp(values, sizes of t, config=t.config, overflow=<the other mode>) -- t's Config OBJECT is passed together with an
\* overriding keyword: the new object gets its own copy with the override, t keeps its modes
DoNewLike(S, a) == LET ot == S.objs[a.t]
                       cf == IF a.via = "config" THEN [ot.cfg EXCEPT !.ovf = IF ot.cfg.ovf = "saturate" THEN "wrap" ELSE "saturate"] ELSE ot.cfg
                       qs == [j \in DOMAIN a.ks |-> Q(a.ks[j], ot.fmt, cf)]
                   IN Put(Forget(S, a.y), a.y, [fmt |-> ot.fmt, codes |-> CodesOf(qs), cfg |-> cf, st |-> FoldQ(qs)])
\* y = x.like(t): a deep copy of the template (status included) that then stores x's value
DoLike(S, a) == LET ox == S.objs[a.x]  ot == S.objs[a.t]
                    qs == ConvAll(ox.codes, ox.fmt, ot.fmt, ot.cfg)
                IN Put(Forget(S, a.y), a.y, [fmt |-> ot.fmt, codes |-> CodesOf(qs), cfg |-> ot.cfg, st |-> OrSt(ot.st, FoldQ(qs))])
\* the same with Python's shallow copy (what like() did before it was repaired): result shares Config and status with t
DoLikeShallow(S, a) ==
   LET ox == S.objs[a.x]  ot == S.objs[a.t]
       qs == ConvAll(ox.codes, ox.fmt, ot.fmt, ot.cfg)
       S1 == Put(Forget(S, a.y), a.y, [fmt |-> ot.fmt, codes |-> CodesOf(qs), cfg |-> ot.cfg, st |-> ot.st])
       S2 == [S1 EXCEPT !.csh = Join(S1.csh, a.y, a.t), !.ssh = Join(S1.ssh, a.y, a.t)]
   IN SetSt(S2, a.y, OrSt(ot.st, FoldQ(qs)))
\* y = x.copy()  (also what x.T, flatten(), fxp_like() build on): shares Config, status AND buffer
DoCopyShallow(S, a) ==
   LET ox == S.objs[a.x]
       S1 == Put(Forget(S, a.y), a.y, ox)
       S2 == [S1 EXCEPT !.csh = Join(S1.csh, a.y, a.x), !.ssh = Join(S1.ssh, a.y, a.x)]
       RECURSIVE link(_, _)
       link(T, j) == IF j = 0 THEN T ELSE link([T EXCEPT !.mem = Join(T.mem, <<a.y, j>>, <<a.x, j>>)], j - 1)
   IN link(S2, Len(ox.codes))
\* y = x.deepcopy(): everything copied, nothing shared
DoDeepCopy(S, a) == Put(Forget(S, a.y), a.y, S.objs[a.x])
\* x.resize(...): re-store the value in the new format under x's own modes (x.val rebound)
DoResize(S, a) == LET ob == S.objs[a.x]
                      qs == ConvAll(ob.codes, ob.fmt, a.fmt, ob.cfg)
                      S1 == Put(Unlink(S, a.x), a.x, [ob EXCEPT !.fmt = a.fmt, !.codes = CodesOf(qs)])
                  IN SetSt(S1, a.x, OrSt(ob.st, FoldQ(qs)))
\* x.equal(y) / x(y): x takes y's value (its own format and modes), inaccuracy of y is inherited by x(y)
DoAssign(S, a) == LET ox == S.objs[a.x]  oy == S.objs[a.y]
                      qs == ConvAll(oy.codes, oy.fmt, ox.fmt, ox.cfg)
                      inh == IF a.via = "call" THEN [o |-> FALSE, u |-> FALSE, i |-> oy.st.i] ELSE Clean
                      S1 == Put(Unlink(S, a.x), a.x, [ox EXCEPT !.codes = CodesOf(qs)])
                  IN SetSt(S1, a.x, OrSt(OrSt(ox.st, inh), FoldQ(qs)))
\* x.reset(): clears the three flags (of the dict, i.e. of everything sharing it)
DoReset(S, a) == SetSt(S, a.x, Clean)
\* x.rounding = r / x.overflow = o / x.config.rounding = r
DoSetCfg(S, a) == SetCf(S, a.x, IF a.key = "rnd" THEN [S.objs[a.x].cfg EXCEPT !.rnd = a.val] ELSE [S.objs[a.x].cfg EXCEPT !.ovf = a.val])
\* an invalid configuration value is rejected with an error and nothing changes
DoSetCfgBad(S, a) == S
\* z = x + y / x - y / x * y with optimal sizing: copy of x's Config; flags of the store; inaccuracy of the operands
DoBinOp(S, a) == LET ox == S.objs[a.x]  oy == S.objs[a.y]
                     tz == N!Grow(a.op, ox.fmt, oy.fmt)
                     n == IF Len(ox.codes) >= Len(oy.codes) THEN Len(ox.codes) ELSE Len(oy.codes)      \* NumPy broadcasting of a 1-element operand
                     At(ob, j) == IF Len(ob.codes) = 1 THEN ob.codes[1] ELSE ob.codes[j]
                     qs == [j \in 1..n |-> N!ArithInto(a.op, At(ox, j), ox.fmt, At(oy, j), oy.fmt, tz, ox.cfg.rnd, ox.cfg.ovf)]
                     st == OrSt(FoldQ(qs), [o |-> FALSE, u |-> FALSE, i |-> ox.st.i \/ oy.st.i])
                 IN Put(Forget(S, a.z), a.z, [fmt |-> tz, codes |-> CodesOf(qs), cfg |-> ox.cfg, st |-> st])
\* add(x, y, out=z) / x.config.op_out = z: the result is written into the EXISTING object z under z's modes (a write:
\* sticky flags); the inaccuracy of the operands is inherited
DoBinOpOut(S, a) == LET ox == S.objs[a.x]  oy == S.objs[a.y]  oz == S.objs[a.z]
                        n == IF Len(ox.codes) >= Len(oy.codes) THEN Len(ox.codes) ELSE Len(oy.codes)
                        At(ob, j) == IF Len(ob.codes) = 1 THEN ob.codes[1] ELSE ob.codes[j]
                        qs == [j \in 1..n |-> N!ArithInto(a.op, At(ox, j), ox.fmt, At(oy, j), oy.fmt, oz.fmt, oz.cfg.rnd, oz.cfg.ovf)]
                        S1 == Put(Unlink(S, a.z), a.z, [oz EXCEPT !.codes = CodesOf(qs)])
                    IN SetSt(S1, a.z, OrSt(OrSt(oz.st, FoldQ(qs)), [o |-> FALSE, u |-> FALSE, i |-> ox.st.i \/ oy.st.i]))
\* z = -x: a new object of the same sizes with a DEFAULT Config (named deviation: modes and flags are not inherited)
DoNeg(S, a) == LET ox == S.objs[a.x]
                   qs == [j \in DOMAIN ox.codes |-> N!Quantize(N!ValueOf(-ox.codes[j], ox.fmt), ox.fmt, "trunc", "saturate")]
               IN Put(Forget(S, a.z), a.z, [fmt |-> ox.fmt, codes |-> CodesOf(qs), cfg |-> DefaultCfg, st |-> FoldQ(qs)])
\* y = x >> 1 with shifting = trunc/keep, y = ~x: built on a DEEP copy of x (Config and status copied, flags included)
DoRShiftKeep(S, a) == LET ox == S.objs[a.x] IN
   Put(Forget(S, a.y), a.y, [ox EXCEPT !.codes = [k \in DOMAIN ox.codes |-> ox.codes[k] \div (2^a.n)]])
\* y = x << n with shifting = trunc/keep: a NEW object of the same sizes with a default Config (clamps), flags of that store only
DoLShiftKeep(S, a) == LET ox == S.objs[a.x]
                          qs == [k \in DOMAIN ox.codes |-> N!Quantize(N!ValueOf(ox.codes[k] * (2^a.n), ox.fmt), ox.fmt, "trunc", "saturate")]
                      IN Put(Forget(S, a.y), a.y, [fmt |-> ox.fmt, codes |-> CodesOf(qs), cfg |-> DefaultCfg, st |-> FoldQ(qs)])
DoInvert(S, a) == LET ox == S.objs[a.x] IN
   Put(Forget(S, a.y), a.y, [ox EXCEPT !.codes = [k \in DOMAIN ox.codes |-> N!FromImage(N!PatToNat(N!PatNot(N!Pattern(ox.codes[k], ox.fmt.w))), ox.fmt)]])
DoDrop(S, a) == Forget(Put(S, a.x, NULL), a.x)

(*********** actions added after the first build: the rest of C20's list (bitwise, shifts, NumPy functions, constants) ***********)
\* z = x & y / x | y / x ^ y with y a one-element fixed-point object of the same word length, used as  x op y[0]  (the library
\* combines an array only with a SCALAR fixed-point operand or an integer mask): a DEEP copy of x holding the combined patterns
DoBitOp(S, a) == LET ox == S.objs[a.x]  oy == S.objs[a.y]  w == ox.fmt.w
                     img(c) == N!FromImage(N!PatToNat(N!BitwiseOp(a.op, N!Pattern(c, w), N!Pattern(oy.codes[1], w))), ox.fmt)
                 IN Put(Forget(S, a.z), a.z, [ox EXCEPT !.codes = [k \in DOMAIN ox.codes |-> img(ox.codes[k])]])
\* z = x & m / m | x / x ^ m with an integer bit mask (either side)
DoBitMask(S, a) == LET ox == S.objs[a.x]  w == ox.fmt.w
                       img(c) == N!FromImage(N!PatToNat(N!BitwiseOp(a.op, N!Pattern(c, w), N!Pattern(a.m, w))), ox.fmt)
                   IN Put(Forget(S, a.z), a.z, [ox EXCEPT !.codes = [k \in DOMAIN ox.codes |-> img(ox.codes[k])]])
\* y = x << n / x >> n with shifting = 'expand': a NEW object (default Config, clean status) whose word / fraction grew as the
\* algorithm of the library decides (array-wide lowest set bit, magnitude of the largest element)
DoShiftExpand(S, a) == LET ox == S.objs[a.x]
                           r == IF a.dir = "l" THEN A!LShiftExpand(ox.codes, ox.fmt, a.n) ELSE A!RShiftExpand(ox.codes, ox.fmt, a.n)
                       IN Put(Forget(S, a.y), a.y, [fmt |-> r.fmt, codes |-> r.codes, cfg |-> DefaultCfg, st |-> Clean])
\* z = np.sum(x) / x.sum() / np.cumsum(x) / np.max(x) / np.min(x) (keepdims): a NEW object; named deviation: the one-operand
\* function wrapper does not hand x's Config on, so the result has a DEFAULT Config; the inaccuracy of x is inherited
RedFmt(red, t, n) == IF red \in {"sum", "cumsum"} THEN [t EXCEPT !.w = @ + N!CeilLog2(n)] ELSE t
RedCodes(red, cs) == CASE red = "sum" -> <<N!ZSumSeq(cs)>> [] red = "max" -> <<N!ZMaxSeq(cs)>> [] red = "min" -> <<N!ZMinSeq(cs)>>
                       [] red = "cumsum" -> [k \in DOMAIN cs |-> N!ZSumSeq(SubSeq(cs, 1, k))]
DoReduce(S, a) == LET ox == S.objs[a.x] IN
   Put(Forget(S, a.z), a.z, [fmt |-> RedFmt(a.red, ox.fmt, Len(ox.codes)), codes |-> RedCodes(a.red, ox.codes), cfg |-> DefaultCfg,
                             st |-> [o |-> FALSE, u |-> FALSE, i |-> ox.st.i]])
\* z = x + k / k + x / x - k / k - x / x * k with a plain number k: the constant is first converted into a fixed-point constant LIKE x
\* (op_input_size = 'same': x's format and modes), the result has x's format (const_op_sizing = 'same') and a copy of x's Config;
\* it is inexact when x was, or when the constant did not fit x's format exactly
DoBinOpConst(S, a) == LET ox == S.objs[a.x]  t == ox.fmt
                          qc == Q(a.k4, t, ox.cfg)
                          qs == [j \in DOMAIN ox.codes |-> IF a.side = "r" THEN N!ArithInto(a.op, ox.codes[j], t, qc.code, t, t, ox.cfg.rnd, ox.cfg.ovf)
                                                                            ELSE N!ArithInto(a.op, qc.code, t, ox.codes[j], t, t, ox.cfg.rnd, ox.cfg.ovf)]
                          st == OrSt(FoldQ(qs), [o |-> FALSE, u |-> FALSE, i |-> ox.st.i \/ qc.inexact])
                      IN Put(Forget(S, a.z), a.z, [fmt |-> t, codes |-> CodesOf(qs), cfg |-> ox.cfg, st |-> st])
\* x += y / x -= y / x *= y: NOT in place - the name x is rebound to the new object  x op y  (views of the old x keep the old memory,
\* the old flags are gone, the format is the grown one)
DoIOp(S, a) == DoBinOp(S, [act |-> "BinOp", z |-> a.x, op |-> a.op, x |-> a.x, y |-> a.y])
\* x.set_val(codes, raw=True): the integers are CODES; out-of-range codes are saturated / wrapped and flagged like values
QRaw(c, t, cf) == N!Quantize([m |-> c, e |-> -t.f], t, cf.rnd, cf.ovf)
DoSetRaw(S, a) == LET ob == S.objs[a.x]
                      qs == [j \in DOMAIN a.cs |-> QRaw(a.cs[j], ob.fmt, ob.cfg)]
                      S1 == Put(Unlink(S, a.x), a.x, [ob EXCEPT !.codes = CodesOf(qs)])
                  IN SetSt(S1, a.x, OrSt(ob.st, FoldQ(qs)))
RawGrid(t) == {1, N!Hi(t), N!Hi(t) + 1, N!Lo(t) - 1}

Step(S, a) == CASE a.act = "New" -> DoNew(S, a)           [] a.act = "Store" -> DoStore(S, a)
                [] a.act = "SetItem" -> DoSetItem(S, a)   [] a.act = "GetItem" -> DoGetItem(S, a)
                [] a.act = "SetItemFxp" -> DoSetItemFxp(S, a)
                [] a.act = "CtorLike" -> DoCtorLike(S, a) [] a.act = "Like" -> DoLike(S, a)
                [] a.act = "NewLike" -> DoNewLike(S, a)
                [] a.act = "LikeShallow" -> DoLikeShallow(S, a)
                [] a.act = "CopyShallow" -> DoCopyShallow(S, a) [] a.act = "DeepCopy" -> DoDeepCopy(S, a)
                [] a.act = "Resize" -> DoResize(S, a)     [] a.act = "Assign" -> DoAssign(S, a)
                [] a.act = "Reset" -> DoReset(S, a)       [] a.act = "SetCfg" -> DoSetCfg(S, a)
                [] a.act = "SetCfgBad" -> DoSetCfgBad(S, a)
                [] a.act = "BinOp" -> DoBinOp(S, a)       [] a.act = "Neg" -> DoNeg(S, a)
                [] a.act = "BinOpOut" -> DoBinOpOut(S, a)
                [] a.act = "RShiftKeep" -> DoRShiftKeep(S, a) [] a.act = "Invert" -> DoInvert(S, a)
                [] a.act = "LShiftKeep" -> DoLShiftKeep(S, a)
                [] a.act = "Drop" -> DoDrop(S, a)
                [] a.act = "BitOp" -> DoBitOp(S, a)       [] a.act = "BitMask" -> DoBitMask(S, a)
                [] a.act = "ShiftExpand" -> DoShiftExpand(S, a) [] a.act = "Reduce" -> DoReduce(S, a)
                [] a.act = "BinOpConst" -> DoBinOpConst(S, a) [] a.act = "IOp" -> DoIOp(S, a)
                [] a.act = "SetRaw" -> DoSetRaw(S, a)
\* callbacks a recorder registered on the written object sees during the step
CbStep(S, a) == CASE a.act = "Store" -> CbOf(FoldQ([j \in DOMAIN a.ks |-> Q(a.ks[j], S.objs[a.x].fmt, S.objs[a.x].cfg)]))
                  [] a.act = "SetItem" -> CbOf(FoldQ(<<Q(a.k4, S.objs[a.x].fmt, S.objs[a.x].cfg)>>))
                  [] a.act = "SetItemFxp" -> CbOf(FoldQ(<<N!Convert(S.objs[a.y].codes[1], S.objs[a.y].fmt, S.objs[a.x].fmt,
                                                                    S.objs[a.x].cfg.rnd, S.objs[a.x].cfg.ovf)>>))
                  [] a.act = "SetRaw" -> CbOf(FoldQ([j \in DOMAIN a.cs |-> QRaw(a.cs[j], S.objs[a.x].fmt, S.objs[a.x].cfg)]))
                  [] OTHER -> <<>>

(************************** enabled actions (small scope) ******************)
IsLive(S, x) == S.objs[x] # NULL
\* a slot can be taken for a new object only when it is empty (dropping first keeps behaviours readable)
\* new objects take the first free slot in the order ObjSeq: heaps that differ by a permutation of names are not re-explored
Free(S, x) == /\ S.objs[x] = NULL
              /\ \A i \in DOMAIN ObjSeq : ObjSeq[i] = x => \A k \in 1..(i - 1) : S.objs[ObjSeq[k]] # NULL
LenOf(S, x) == Len(S.objs[x].codes)
Enabled(S) ==
   UNION {
     IF "New" \in Acts THEN { [act |-> "New", x |-> x, fmt |-> t, r |-> r, o |-> o, ks |-> <<k1, k2>>] :
          x \in { y \in Obj : Free(S, y) }, t \in Fmts, r \in Rnds, o \in Ovfs, k1 \in {4}, k2 \in {4, 0} } ELSE {},
     IF "New1" \in Acts THEN UNION { { [act |-> "New", x |-> x, fmt |-> t, r |-> r, o |-> o, ks |-> <<k1, k2>>] : k1 \in Grid(t), k2 \in Grid(t) }
                                     \cup { [act |-> "New", x |-> x, fmt |-> t, r |-> r, o |-> o, ks |-> <<k1>>] : k1 \in Grid(t) } :     \* (one-element objects: sources of x[j] = y)
          x \in { y \in Obj : Free(S, y) }, t \in Fmts, r \in Rnds, o \in Ovfs } ELSE {},
     IF "Store" \in Acts THEN UNION { { [act |-> "Store", x |-> x, ks |-> IF LenOf(S, x) = 2 THEN <<k1, k2>> ELSE <<k1>>] :
          k1 \in Grid(S.objs[x].fmt), k2 \in (IF LenOf(S, x) = 2 THEN Grid(S.objs[x].fmt) ELSE {0}) } : x \in Live(S) } ELSE {},
     IF "SetItem" \in Acts THEN UNION { { [act |-> "SetItem", x |-> x, j |-> j, k4 |-> k] : j \in DOMAIN S.objs[x].codes, k \in Grid(S.objs[x].fmt) } : x \in Live(S) } ELSE {},
     IF "SetItemFxp" \in Acts THEN { r \in { [act |-> "SetItemFxp", x |-> x, j |-> j, y |-> y] : x \in Live(S), j \in 1..2, y \in Live(S) } :
          r.x # r.y /\ r.j \in DOMAIN S.objs[r.x].codes /\ LenOf(S, r.y) = 1 } ELSE {},
     IF "GetItem" \in Acts THEN UNION { { [act |-> "GetItem", y |-> y, x |-> x, j |-> j, sel |-> "one"] : y \in { z \in Obj : Free(S, z) }, j \in DOMAIN S.objs[x].codes }
                                        \cup { [act |-> "GetItem", y |-> y, x |-> x, j |-> 0, sel |-> sl] : y \in { z \in Obj : Free(S, z) }, sl \in {"rev", "all"} } :
          x \in { z \in Live(S) : LenOf(S, z) = 2 } } ELSE {},
     IF "CtorLike" \in Acts THEN { r \in { [act |-> "CtorLike", y |-> y, x |-> x, t |-> t] : y \in { z \in Obj : Free(S, z) }, x \in Live(S), t \in Live(S) } : r.x # r.t } ELSE {},
     IF "NewLike" \in Acts THEN UNION { { [act |-> "NewLike", y |-> y, t |-> t, via |-> v, ks |-> <<k1, k2>>] :
          y \in { z \in Obj : Free(S, z) }, v \in {"like", "template", "config"}, k1 \in Grid(S.objs[t].fmt), k2 \in {4} } : t \in Live(S) } ELSE {},
     IF "Like" \in Acts THEN { r \in { [act |-> "Like", y |-> y, x |-> x, t |-> t] : y \in { z \in Obj : Free(S, z) }, x \in Live(S), t \in Live(S) } : r.x # r.t } ELSE {},
     IF "LikeShallow" \in Acts THEN { r \in { [act |-> "LikeShallow", y |-> y, x |-> x, t |-> t] : y \in { z \in Obj : Free(S, z) }, x \in Live(S), t \in Live(S) } : r.x # r.t } ELSE {},
     IF "CopyShallow" \in Acts THEN { [act |-> "CopyShallow", y |-> y, x |-> x] : y \in { z \in Obj : Free(S, z) }, x \in Live(S) } ELSE {},
     IF "DeepCopy" \in Acts THEN { [act |-> "DeepCopy", y |-> y, x |-> x] : y \in { z \in Obj : Free(S, z) }, x \in Live(S) } ELSE {},
     IF "Resize" \in Acts THEN UNION { { [act |-> "Resize", x |-> x, fmt |-> t] : t \in Fmts \ {S.objs[x].fmt} } : x \in Live(S) } ELSE {},
     IF "Assign" \in Acts THEN { r \in { [act |-> "Assign", x |-> x, y |-> y, via |-> v] : x \in Live(S), y \in Live(S), v \in {"call", "equal"} } : r.x # r.y /\ LenOf(S, r.y) = LenOf(S, r.x) } ELSE {},
     IF "Reset" \in Acts THEN { [act |-> "Reset", x |-> x] : x \in { z \in Live(S) : S.objs[z].st # Clean } } ELSE {},
     IF "SetCfg" \in Acts THEN UNION { { [act |-> "SetCfg", x |-> x, key |-> "rnd", val |-> r] : r \in Rnds \ {S.objs[x].cfg.rnd} }
                                       \cup { [act |-> "SetCfg", x |-> x, key |-> "ovf", val |-> o] : o \in Ovfs \ {S.objs[x].cfg.ovf} } : x \in Live(S) } ELSE {},
     IF "SetCfgBad" \in Acts THEN { [act |-> "SetCfgBad", x |-> x, key |-> k] : x \in Live(S), k \in {"rnd", "ovf"} } ELSE {},
     IF "BinOp" \in Acts THEN { [act |-> "BinOp", z |-> z, op |-> op, x |-> x, y |-> y] : z \in { v \in Obj : Free(S, v) }, op \in {"add", "mul"},
          x \in Live(S), y \in Live(S) } ELSE {},
     IF "BinOpOut" \in Acts THEN { r \in { [act |-> "BinOpOut", z |-> z, op |-> op, x |-> x, y |-> y] : z \in Live(S), op \in {"add", "mul"}, x \in Live(S), y \in Live(S) } :
          /\ r.z # r.x /\ r.z # r.y
          /\ (S.objs[r.z].fmt.s \/ ~(S.objs[r.x].fmt.s \/ S.objs[r.y].fmt.s))          \* a signed result cannot go into an unsigned out (the code raises)
          /\ LenOf(S, r.z) = (IF LenOf(S, r.x) >= LenOf(S, r.y) THEN LenOf(S, r.x) ELSE LenOf(S, r.y)) } ELSE {},
     IF "Neg" \in Acts THEN { [act |-> "Neg", z |-> z, x |-> x] : z \in { v \in Obj : Free(S, v) }, x \in Live(S) } ELSE {},
     IF "RShiftKeep" \in Acts THEN { [act |-> "RShiftKeep", y |-> y, x |-> x, n |-> n] : y \in { z \in Obj : Free(S, z) }, x \in Live(S), n \in {0, 1} } ELSE {},
     IF "LShiftKeep" \in Acts THEN { [act |-> "LShiftKeep", y |-> y, x |-> x, n |-> n] : y \in { z \in Obj : Free(S, z) }, x \in Live(S), n \in {0, 1} } ELSE {},
     IF "Invert" \in Acts THEN { [act |-> "Invert", y |-> y, x |-> x] : y \in { z \in Obj : Free(S, z) }, x \in Live(S) } ELSE {},
     IF "Drop" \in Acts THEN { [act |-> "Drop", x |-> x] : x \in Live(S) } ELSE {},
     IF "BinOpSub" \in Acts THEN { [act |-> "BinOp", z |-> z, op |-> "sub", x |-> x, y |-> y] : z \in { v \in Obj : Free(S, v) }, x \in Live(S), y \in Live(S) } ELSE {},
     IF "BitOp" \in Acts THEN { r \in { [act |-> "BitOp", z |-> z, op |-> op, x |-> x, y |-> y] : z \in { v \in Obj : Free(S, v) }, op \in {"and", "or", "xor"},
          x \in Live(S), y \in Live(S) } : LenOf(S, r.y) = 1 /\ S.objs[r.x].fmt.w = S.objs[r.y].fmt.w } ELSE {},
     IF "BitMask" \in Acts THEN UNION { { [act |-> "BitMask", z |-> z, op |-> os[1], x |-> x, m |-> m, side |-> os[2]] : z \in { v \in Obj : Free(S, v) },
          os \in {<<"and", "l">>, <<"and", "r">>, <<"or", "l">>, <<"xor", "r">>}, m \in {1, 2^S.objs[x].fmt.w - 2} } : x \in Live(S) } ELSE {},
     IF "ShiftExpand" \in Acts THEN { [act |-> "ShiftExpand", y |-> y, x |-> x, dir |-> d, n |-> n] : y \in { z \in Obj : Free(S, z) }, x \in Live(S), d \in {"l", "r"}, n \in {0, 1, 2} } ELSE {},
     IF "Reduce" \in Acts THEN { [act |-> "Reduce", z |-> z, x |-> x, red |-> rd] : z \in { v \in Obj : Free(S, v) }, x \in Live(S), rd \in {"sum", "cumsum", "max", "min"} } ELSE {},
     IF "BinOpConst" \in Acts THEN UNION { { [act |-> "BinOpConst", z |-> z, op |-> os[1], x |-> x, k4 |-> k, side |-> os[2]] : z \in { v \in Obj : Free(S, v) },
          os \in {<<"add", "l">>, <<"sub", "l">>, <<"sub", "r">>, <<"mul", "r">>}, k \in Grid(S.objs[x].fmt) } : x \in Live(S) } ELSE {},
     IF "IOp" \in Acts THEN { [act |-> "IOp", x |-> x, op |-> op, y |-> y] : op \in {"add", "sub", "mul"}, x \in Live(S), y \in Live(S) } ELSE {},
     IF "SetRaw" \in Acts THEN UNION { { [act |-> "SetRaw", x |-> x, cs |-> IF LenOf(S, x) = 2 THEN <<c1, c2>> ELSE <<c1>>] :
          c1 \in RawGrid(S.objs[x].fmt), c2 \in (IF LenOf(S, x) = 2 THEN {1, N!Hi(S.objs[x].fmt) + 1} ELSE {0}) } : x \in Live(S) } ELSE {}
   }

(***************************** the state machine ***************************)
VARIABLES st,      \* the heap S
          last,    \* history: the action that produced this state, with the callbacks it fired
          hist     \* history: the behaviour so far (sequence of actions) - what the replay harness executes
vars == <<st, last, hist>>
Init == st = InitS /\ last = [act |-> "Init", cb |-> <<>>] /\ hist = <<>>
Next == \E a \in Enabled(st) :
           /\ st' = Step(st, a)
           /\ last' = a @@ [cb |-> CbStep(st, a)]
           /\ hist' = Append(hist, a)
Spec == Init /\ [][Next]_vars
View == st
Bound == TLCGet("level") <= Depth

(*************************** observable projection **************************)
Obs(S, x) == S.objs[x]
Ext(S, x) == S.objs[x].fmt.w >= EXT          \* the extended-precision indicator is a function of the format (C18)

(******************************** properties *******************************)
\* C02: every reachable object is well formed
WellFormed == \A x \in Live(st) : \A j \in DOMAIN st.objs[x].codes : N!InRange(st.objs[x].codes[j], st.objs[x].fmt)
\* C20 (structural): outside Python's shallow copy nothing shares a Config or a status dict, and memory is shared only by views
NoSharedConfig == st.csh = {} /\ st.ssh = {}
ViewsOnly == \A b \in st.mem : \A e1 \in b, e2 \in b : st.objs[e1[1]].codes[e1[2]] = st.objs[e2[1]].codes[e2[2]]
\* C20 (behavioural): a step changes what OTHER objects show only through shared memory of an indexed write
Target(l) == IF l.act \in {"New", "Store", "SetItem", "SetItemFxp", "Resize", "Reset", "SetCfg", "SetCfgBad", "Assign", "Drop", "IOp", "SetRaw"} THEN l.x
             ELSE IF l.act = "BinOpOut" THEN l.z
             ELSE IF l.act \in {"GetItem", "CtorLike", "NewLike", "Like", "LikeShallow", "CopyShallow", "DeepCopy", "RShiftKeep", "LShiftKeep", "Invert", "ShiftExpand"} THEN l.y
             ELSE IF l.act \in {"BinOp", "Neg", "BitOp", "BitMask", "Reduce", "BinOpConst"} THEN l.z ELSE NULL
NonInterference == [][ \A p \in Obj : (p # Target(last') /\ st.objs[p] # NULL /\ st'.objs[p] # st.objs[p])
                          => (last'.act \in {"SetItem", "SetItemFxp"} /\ \E b \in st.mem : <<last'.x, last'.j>> \in b /\ \E k \in DOMAIN st.objs[p].codes : <<p, k>> \in b) ]_vars
\* C20: chained indexed assignment writes through to the parent
ViewWriteThrough == [][ (last'.act \in {"SetItem", "SetItemFxp"}) =>
                          \A b \in st.mem : <<last'.x, last'.j>> \in b =>
                             \A e \in b : st'.objs[e[1]].codes[e[2]] = st'.objs[last'.x].codes[last'.j] ]_vars
\* C20: an invalid configuration value changes nothing
BadConfigRejected == [][ last'.act = "SetCfgBad" => st' = st ]_vars
\* C04: flags are sticky until reset()
Creates(l) == l.act \in {"New", "GetItem", "CtorLike", "NewLike", "Like", "LikeShallow", "CopyShallow", "DeepCopy", "BinOp", "Neg", "Drop", "RShiftKeep", "LShiftKeep", "Invert",
                           "BitOp", "BitMask", "ShiftExpand", "Reduce", "BinOpConst", "IOp"}
\* (SetItemFxp is a write: flags sticky, callbacks exact)
Sticky == [][ \A p \in Obj : (/\ st.objs[p] # NULL /\ st'.objs[p] # NULL
                               /\ ~(Creates(last') /\ Target(last') = p)           \* p is the same object before and after
                               /\ last'.act # "Reset")
                 => /\ (st.objs[p].st.o => st'.objs[p].st.o)
                    /\ (st.objs[p].st.u => st'.objs[p].st.u)
                    /\ (st.objs[p].st.i => st'.objs[p].st.i) ]_vars
\* C04: reset clears exactly the three flags and nothing else of the object
ResetLeavesRest == [][ last'.act = "Reset" =>
                         /\ st'.objs[last'.x].st = Clean
                         /\ st'.objs[last'.x].fmt = st.objs[last'.x].fmt /\ st'.objs[last'.x].codes = st.objs[last'.x].codes
                         /\ st'.objs[last'.x].cfg = st.objs[last'.x].cfg /\ Ext(st', last'.x) = Ext(st, last'.x) ]_vars
\* C04: a write raises a flag iff the condition occurred in THIS write or it was raised before; callbacks = exactly the new conditions
FlagIff == [][ last'.act \in {"Store", "SetItem", "SetRaw"} =>
                 LET x == last'.x
                     qs == IF last'.act = "Store" THEN [j \in DOMAIN last'.ks |-> Q(last'.ks[j], st.objs[x].fmt, st.objs[x].cfg)]
                           ELSE IF last'.act = "SetRaw" THEN [j \in DOMAIN last'.cs |-> QRaw(last'.cs[j], st.objs[x].fmt, st.objs[x].cfg)]
                           ELSE <<Q(last'.k4, st.objs[x].fmt, st.objs[x].cfg)>>
                 IN /\ st'.objs[x].st = OrSt(st.objs[x].st, FoldQ(qs))
                    /\ last'.cb = CbOf(FoldQ(qs)) ]_vars
\* C04: results of arithmetic carry the inaccuracy flag whenever an operand carried it
InaccPropagates == [][ /\ (last'.act \in {"BinOp", "BinOpOut"} => ((st.objs[last'.x].st.i \/ st.objs[last'.y].st.i) => st'.objs[last'.z].st.i))
                       /\ (last'.act = "IOp" => ((st.objs[last'.x].st.i \/ st.objs[last'.y].st.i) => st'.objs[last'.x].st.i))
                       /\ (last'.act \in {"Reduce", "BinOpConst"} => (st.objs[last'.x].st.i => st'.objs[last'.z].st.i)) ]_vars
\* C10/C20: deriving never changes the source
SourceUnchanged == [][ last'.act \in {"CtorLike", "NewLike", "Like", "DeepCopy", "GetItem", "BinOp", "Neg", "RShiftKeep", "LShiftKeep", "Invert",
                                        "BitOp", "BitMask", "ShiftExpand", "Reduce", "BinOpConst", "IOp"} =>
                         \A p \in Obj \ {Target(last')} : st'.objs[p] = st.objs[p] ]_vars
\* C14 (system level): in expand mode a shift scales by a power of two EXACTLY and leaves the operand alone
ShiftExact == [][ last'.act = "ShiftExpand" =>
                    LET ox == st.objs[last'.x]  oy == st'.objs[last'.y] IN
                    /\ Len(oy.codes) = Len(ox.codes)
                    /\ \A j \in DOMAIN ox.codes : N!DEq(N!ValueOf(oy.codes[j], oy.fmt),
                                                       N!Scale(N!ValueOf(ox.codes[j], ox.fmt), IF last'.dir = "l" THEN last'.n ELSE -last'.n))
                    /\ oy.st = Clean ]_vars
\* C15 (system level): sums never overflow with the grown word, max / min keep the format; values exact
ReduceExact == [][ last'.act = "Reduce" =>
                     LET ox == st.objs[last'.x]  oz == st'.objs[last'.z] IN
                     /\ \A j \in DOMAIN oz.codes : N!InRange(oz.codes[j], oz.fmt)
                     /\ oz.fmt.f = ox.fmt.f /\ ~oz.st.o /\ ~oz.st.u
                     /\ (last'.red = "sum" => oz.codes[1] = N!ZSumSeq(ox.codes)) ]_vars
\* C13 (system level): ~ and the mask operators are involutions / idempotent where the laws say so: x ^ m ^ m = x is checked by replay;
\* here: the result keeps x's format, Config and flags (a deep copy) and stays in range
BitKeepsFormat == [][ last'.act \in {"BitOp", "BitMask", "Invert"} =>
                        LET ox == st.objs[last'.x]  oz == st'.objs[Target(last')] IN
                        /\ oz.fmt = ox.fmt /\ oz.cfg = ox.cfg /\ oz.st = ox.st
                        /\ \A j \in DOMAIN oz.codes : N!InRange(oz.codes[j], oz.fmt) ]_vars
\* x += y rebinds the name: whatever was a view of the old x still shows the old values
IOpRebinds == [][ last'.act = "IOp" => \A p \in Obj \ {last'.x} : st'.objs[p] = st.objs[p] ]_vars
\* export of behaviours for the replay harness: TLC evaluates invariants on every generated state, before duplicate
\* detection, so this prints one behaviour per TRANSITION of the bounded model (a complete transition cover)
EmitHist == hist = <<>> \/ PrintT(ToJson([k |-> "beh", h |-> hist]))
\* for -simulate runs: print only behaviours that reached the full length (TLC also evaluates invariants on candidate
\* successors it does not take; printing only at the last level keeps that to one fan-out per simulated trace)
EmitFull == Len(hist) # Depth \/ PrintT(ToJson([k |-> "beh", h |-> hist]))
=============================================================================
